package main

import "go/types"

func ptrTo(t types.Type) types.Type { return types.NewPointer(t) }
