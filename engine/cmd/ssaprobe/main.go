package main

import (
	"fmt"
	"os"

	"golang.org/x/tools/go/packages"
	"golang.org/x/tools/go/ssa"
	"golang.org/x/tools/go/ssa/ssautil"
)

func main() {
	cfg := &packages.Config{Mode: packages.LoadAllSyntax, Dir: "/repo", BuildFlags: []string{"-tags=verif"}}
	pkgs, err := packages.Load(cfg, os.Args[1])
	if err != nil {
		panic(err)
	}
	prog, spkgs := ssautil.Packages(pkgs, ssa.NaiveForm|ssa.InstantiateGenerics)
	prog.Build()
	for _, p := range spkgs {
		for _, name := range os.Args[2:] {
			if f := p.Func(name); f != nil {
				f.WriteTo(os.Stdout)
				continue
			}
			// method lookup: Type.Method
			for _, m := range p.Members {
				if t, ok := m.(*ssa.Type); ok {
					for _, ptr := range []bool{false, true} {
						typ := t.Type()
						ms := prog.MethodSets.MethodSet(typ)
						if ptr {
							ms = prog.MethodSets.MethodSet(ptrTo(typ))
						}
						for i := 0; i < ms.Len(); i++ {
							fn := prog.MethodValue(ms.At(i))
							if fn != nil && t.Name()+"."+fn.Name() == name {
								fn.WriteTo(os.Stdout)
								for _, an := range fn.AnonFuncs {
									an.WriteTo(os.Stdout)
								}
							}
						}
					}
				}
			}
		}
	}
	fmt.Println("done")
}
