// Command govc generates and discharges verification conditions for Go functions under contract.
package main

import (
	"encoding/json"
	"flag"
	"fmt"
	"os"
	"path/filepath"
	"runtime"
	"sort"
	"strings"
	"time"

	"govc/vc"
)

type funcOut struct {
	Func        string         `json:"func"`
	Mode        string         `json:"mode"`
	Status      string         `json:"status"`
	Error       string         `json:"error,omitempty"`
	Notes       []string       `json:"notes,omitempty"`
	Trusted     []string       `json:"trusted,omitempty"`
	Passes      int            `json:"passes"`
	Contract    string         `json:"contract"`
	Obligations []*vc.ObResult `json:"obligations"`
}

type replayOut struct {
	Pkg     string            `json:"pkg"`
	PkgDir  string            `json:"pkg_dir"` // relative to the repository root
	Driver  string            `json:"driver"`
	Jobs    string            `json:"jobs"`
	Reports map[string]string `json:"reports"` // function -> report file
	Decode  map[string]string `json:"decode"`  // obligation -> how the model was decoded (or why not)
}

type rtcJob struct {
	Func          string            `json:"func"`
	ContractFiles []string          `json:"contract_files"`
	Inputs        []*vc.ReplayInput `json:"inputs"`
	SearchMs      int               `json:"search_ms"`
	Seed          int64             `json:"seed"`
	MaxLen        int               `json:"max_len"`
	Report        string            `json:"report"`
	Trace         string            `json:"trace"`
}

type output struct {
	Functions []funcOut `json:"functions"`
	LoadMs    float64   `json:"load_ms"`
	SolveMs   float64   `json:"solve_ms"`
	Errors    []string  `json:"errors,omitempty"`
	Replay    []*replayOut `json:"replay,omitempty"`
}

func main() {
	repo := flag.String("repo", "/repo", "repository root")
	verif := flag.String("verif", "/verif", "verification root")
	pkgs := flag.String("pkgs", "", "comma-separated package patterns (relative to repo)")
	funcs := flag.String("funcs", "", "comma-separated pkgshort.Func names; empty = every contract in the packages")
	timeout := flag.Int("timeout", 10, "per-obligation solver timeout (s)")
	out := flag.String("out", "", "result JSON file (default stdout)")
	keep := flag.String("keep", "", "directory to keep SMT queries in")
	workers := flag.Int("j", runtime.NumCPU(), "parallel solver jobs")
	dump := flag.Bool("dump", false, "print obligations")
	replayDir := flag.String("replay-dir", "", "write replay drivers and jobs for functions with failed obligations into this directory")
	searchMs := flag.Int("search-ms", 15000, "budget of the bounded search for a failing input, per function")
	seed := flag.Int64("seed", 1, "seed of the bounded search")
	driverOnly := flag.String("driver-only", "", "only write the replay driver for -funcs into this directory (no verification)")
	flag.Parse()

	t0 := time.Now()
	eng, err := vc.Load(*repo, *verif, strings.Split(*pkgs, ","))
	if err != nil {
		fmt.Fprintln(os.Stderr, "load error:", err)
		os.Exit(2)
	}
	var res output
	res.LoadMs = float64(time.Since(t0).Milliseconds())
	want := map[string]bool{}
	for _, f := range strings.Split(*funcs, ",") {
		if f = strings.TrimSpace(f); f != "" {
			want[f] = true
		}
	}
	if *driverOnly != "" {
		os.MkdirAll(*driverOnly, 0o755)
		for _, pi := range eng.Packages() {
			if pi.Contracts == nil || !pi.Initial {
				continue
			}
			var names []string
			for _, name := range pi.Contracts.Order {
				if want[pi.Short+"."+name] {
					names = append(names, name)
				}
			}
			if len(names) == 0 {
				continue
			}
			rel, _ := filepath.Rel(*repo, pi.Dir)
			ro := &replayOut{Pkg: pi.Short, PkgDir: rel, Driver: filepath.Join(*driverOnly, "driver_test.go"), Jobs: filepath.Join(*driverOnly, "jobs.json"), Reports: map[string]string{}}
			os.WriteFile(ro.Driver, []byte(eng.DriverSource(pi, rtcImport, names)), 0o644)
			res.Replay = append(res.Replay, ro)
		}
		data, _ := json.MarshalIndent(res, "", " ")
		if *out != "" {
			os.WriteFile(*out, data, 0o644)
		} else {
			os.Stdout.Write(data)
		}
		return
	}
	found := map[string]bool{}
	var frs []*vc.FuncResult
	var frPkg []*vc.PkgInfo
	for _, pi := range eng.Packages() {
		if pi.Contracts == nil || !pi.Initial {
			continue
		}
		for _, name := range pi.Contracts.Order {
			full := pi.Short + "." + name
			if len(want) > 0 && !want[full] {
				continue
			}
			found[full] = true
			spec := pi.Contracts.Funcs[name]
			if spec.Trusted || spec.Inline {
				continue
			}
			frs = append(frs, eng.VerifyFunc(pi, spec))
			frPkg = append(frPkg, pi)
		}
		// constant tables: "<pkg>.tables" names all table blocks of the package
		if len(pi.Contracts.TableOrder) > 0 && (len(want) == 0 || want[pi.Short+".tables"]) {
			found[pi.Short+".tables"] = true
			for _, tn := range pi.Contracts.TableOrder {
				frs = append(frs, eng.VerifyTable(pi, pi.Contracts.Tables[tn]))
				frPkg = append(frPkg, nil)
			}
		}
	}
	for f := range want {
		if !found[f] {
			res.Errors = append(res.Errors, "no contract found for "+f)
			frs = append(frs, &vc.FuncResult{Func: f, Status: "missing", Error: "no contract found"})
			frPkg = append(frPkg, nil)
		}
	}
	tmp := *keep
	if tmp == "" {
		tmp, err = os.MkdirTemp("", "govc")
		if err != nil {
			fmt.Fprintln(os.Stderr, err)
			os.Exit(2)
		}
		defer os.RemoveAll(tmp)
	} else {
		os.MkdirAll(tmp, 0o755)
	}
	t1 := time.Now()
	var all []*vc.Obligation
	for _, fr := range frs {
		all = append(all, fr.Obligations...)
	}
	results := vc.Discharge(all, tmp, *timeout, *workers, *keep != "")
	res.SolveMs = float64(time.Since(t1).Milliseconds())
	if *replayDir != "" {
		res.Replay = writeReplay(eng, *repo, *replayDir, frs, frPkg, all, results, *searchMs, *seed)
	}
	k := 0
	for _, fr := range frs {
		fo := funcOut{Func: fr.Func, Mode: fr.Mode, Status: fr.Status, Error: fr.Error, Notes: fr.Notes, Trusted: fr.Trusted, Passes: fr.Passes,
			Contract: fmt.Sprintf("%s:%d", fr.File, fr.Line)}
		for range fr.Obligations {
			fo.Obligations = append(fo.Obligations, results[k])
			k++
		}
		res.Functions = append(res.Functions, fo)
	}
	sort.SliceStable(res.Functions, func(i, j int) bool { return res.Functions[i].Func < res.Functions[j].Func })
	if *dump {
		for _, f := range res.Functions {
			fmt.Printf("== %s [%s] %s\n", f.Func, f.Status, f.Error)
			for _, o := range f.Obligations {
				fmt.Printf("   %-14s %-7s %7.0fms %s  -- %s\n", o.Status, o.Solver, o.Ms, o.Name, o.Text)
				if o.Status == "unknown" {
					fmt.Printf("        %s\n", o.Output)
				}
			}
			for _, n := range f.Notes {
				fmt.Printf("   note: %s\n", n)
			}
		}
	}
	data, _ := json.MarshalIndent(res, "", " ")
	if *out != "" {
		os.WriteFile(*out, data, 0o644)
	} else if !*dump {
		os.Stdout.Write(data)
	}
}

const rtcImport = "github.com/inspirer/textmapper/zz_verif_rtc"

// writeReplay prepares, per package, the driver and the jobs of the executable contract back end
// for every function that has an obligation which was refuted or left undecided.
func writeReplay(eng *vc.Engine, repo, dir string, frs []*vc.FuncResult, frPkg []*vc.PkgInfo, all []*vc.Obligation, results []*vc.ObResult, searchMs int, seed int64) []*replayOut {
	os.MkdirAll(dir, 0o755)
	byPkg := map[*vc.PkgInfo]*replayOut{}
	jobs := map[*vc.PkgInfo][]*rtcJob{}
	var order []*vc.PkgInfo
	k := 0
	for fi, fr := range frs {
		n := len(fr.Obligations)
		obls, ress := all[k:k+n], results[k:k+n]
		k += n
		pi := frPkg[fi]
		if pi == nil || fr.Status != "ok" {
			continue
		}
		var failed []int
		for i, r := range ress {
			if r.Status == "refuted" {
				failed = append(failed, i)
			}
		}
		for i, r := range ress {
			if r.Status == "unknown" {
				failed = append(failed, i)
			}
		}
		if len(failed) == 0 {
			continue
		}
		ro := byPkg[pi]
		if ro == nil {
			rel, _ := filepath.Rel(repo, pi.Dir)
			sub := filepath.Join(dir, strings.ReplaceAll(rel, "/", "_"))
			os.MkdirAll(sub, 0o755)
			ro = &replayOut{Pkg: pi.Short, PkgDir: rel, Driver: filepath.Join(sub, "driver_test.go"), Jobs: filepath.Join(sub, "jobs.json"),
				Reports: map[string]string{}, Decode: map[string]string{}}
			byPkg[pi] = ro
			order = append(order, pi)
		}
		name := strings.TrimPrefix(fr.Func, pi.Short+".")
		job := &rtcJob{Func: name, SearchMs: searchMs, Seed: seed, MaxLen: 4,
			Report: filepath.Join(filepath.Dir(ro.Driver), "report_"+sanitizeName(name)+".json"),
			Trace:  filepath.Join(filepath.Dir(ro.Driver), "trace_"+sanitizeName(name)+".txt")}
		for _, cf := range eng.ContractFilesFor(pi) {
			job.ContractFiles = append(job.ContractFiles, cf.Path)
		}
		for j, i := range failed {
			if j >= 3 {
				break
			}
			in, err := vc.DecodeEntry(obls[i], 10)
			if err != nil {
				ro.Decode[obls[i].Name] = "no input decoded: " + err.Error()
				continue
			}
			ro.Decode[obls[i].Name] = "entry state decoded from the solver's " + in.Verdict + " answer"
			job.Inputs = append(job.Inputs, in)
		}
		ro.Reports[fr.Func] = job.Report
		jobs[pi] = append(jobs[pi], job)
	}
	var out []*replayOut
	for _, pi := range order {
		ro := byPkg[pi]
		var names []string
		for _, j := range jobs[pi] {
			names = append(names, j.Func)
		}
		os.WriteFile(ro.Driver, []byte(eng.DriverSource(pi, rtcImport, names)), 0o644)
		data, _ := json.MarshalIndent(jobs[pi], "", " ")
		os.WriteFile(ro.Jobs, data, 0o644)
		out = append(out, ro)
	}
	return out
}

func sanitizeName(s string) string {
	return strings.Map(func(r rune) rune {
		if r >= 'a' && r <= 'z' || r >= 'A' && r <= 'Z' || r >= '0' && r <= '9' {
			return r
		}
		return '_'
	}, s)
}
