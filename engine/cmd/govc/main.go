// Command govc generates and discharges verification conditions for Go functions under contract.
package main

import (
	"encoding/json"
	"flag"
	"fmt"
	"os"
	"runtime"
	"sort"
	"strings"
	"time"

	"govc/vc"
)

type funcOut struct {
	Func        string         `json:"func"`
	Mode        string         `json:"mode"`
	Status      string         `json:"status"`
	Error       string         `json:"error,omitempty"`
	Notes       []string       `json:"notes,omitempty"`
	Trusted     []string       `json:"trusted,omitempty"`
	Passes      int            `json:"passes"`
	Contract    string         `json:"contract"`
	Obligations []*vc.ObResult `json:"obligations"`
}

type output struct {
	Functions []funcOut `json:"functions"`
	LoadMs    float64   `json:"load_ms"`
	SolveMs   float64   `json:"solve_ms"`
	Errors    []string  `json:"errors,omitempty"`
}

func main() {
	repo := flag.String("repo", "/repo", "repository root")
	verif := flag.String("verif", "/verif", "verification root")
	pkgs := flag.String("pkgs", "", "comma-separated package patterns (relative to repo)")
	funcs := flag.String("funcs", "", "comma-separated pkgshort.Func names; empty = every contract in the packages")
	timeout := flag.Int("timeout", 10, "per-obligation solver timeout (s)")
	out := flag.String("out", "", "result JSON file (default stdout)")
	keep := flag.String("keep", "", "directory to keep SMT queries in")
	workers := flag.Int("j", runtime.NumCPU(), "parallel solver jobs")
	dump := flag.Bool("dump", false, "print obligations")
	flag.Parse()

	t0 := time.Now()
	eng, err := vc.Load(*repo, *verif, strings.Split(*pkgs, ","))
	if err != nil {
		fmt.Fprintln(os.Stderr, "load error:", err)
		os.Exit(2)
	}
	var res output
	res.LoadMs = float64(time.Since(t0).Milliseconds())
	want := map[string]bool{}
	for _, f := range strings.Split(*funcs, ",") {
		if f = strings.TrimSpace(f); f != "" {
			want[f] = true
		}
	}
	found := map[string]bool{}
	var frs []*vc.FuncResult
	for _, pi := range eng.Packages() {
		if pi.Contracts == nil || !pi.Initial {
			continue
		}
		for _, name := range pi.Contracts.Order {
			full := pi.Short + "." + name
			if len(want) > 0 && !want[full] {
				continue
			}
			found[full] = true
			spec := pi.Contracts.Funcs[name]
			if spec.Trusted || spec.Inline {
				continue
			}
			frs = append(frs, eng.VerifyFunc(pi, spec))
		}
	}
	for f := range want {
		if !found[f] {
			res.Errors = append(res.Errors, "no contract found for "+f)
			frs = append(frs, &vc.FuncResult{Func: f, Status: "missing", Error: "no contract found"})
		}
	}
	tmp := *keep
	if tmp == "" {
		tmp, err = os.MkdirTemp("", "govc")
		if err != nil {
			fmt.Fprintln(os.Stderr, err)
			os.Exit(2)
		}
		defer os.RemoveAll(tmp)
	} else {
		os.MkdirAll(tmp, 0o755)
	}
	t1 := time.Now()
	var all []*vc.Obligation
	for _, fr := range frs {
		all = append(all, fr.Obligations...)
	}
	results := vc.Discharge(all, tmp, *timeout, *workers, *keep != "")
	res.SolveMs = float64(time.Since(t1).Milliseconds())
	k := 0
	for _, fr := range frs {
		fo := funcOut{Func: fr.Func, Mode: fr.Mode, Status: fr.Status, Error: fr.Error, Notes: fr.Notes, Trusted: fr.Trusted, Passes: fr.Passes,
			Contract: fmt.Sprintf("%s:%d", fr.File, fr.Line)}
		for range fr.Obligations {
			fo.Obligations = append(fo.Obligations, results[k])
			k++
		}
		res.Functions = append(res.Functions, fo)
	}
	sort.SliceStable(res.Functions, func(i, j int) bool { return res.Functions[i].Func < res.Functions[j].Func })
	if *dump {
		for _, f := range res.Functions {
			fmt.Printf("== %s [%s] %s\n", f.Func, f.Status, f.Error)
			for _, o := range f.Obligations {
				fmt.Printf("   %-14s %-7s %7.0fms %s  -- %s\n", o.Status, o.Solver, o.Ms, o.Name, o.Text)
				if o.Status == "unknown" {
					fmt.Printf("        %s\n", o.Output)
				}
			}
			for _, n := range f.Notes {
				fmt.Printf("   note: %s\n", n)
			}
		}
	}
	data, _ := json.MarshalIndent(res, "", " ")
	if *out != "" {
		os.WriteFile(*out, data, 0o644)
	} else if !*dump {
		os.Stdout.Write(data)
	}
}
