package vc

import (
	"fmt"
	"go/types"
	"runtime/debug"
	"strings"

	"golang.org/x/tools/go/ssa"
)

// FuncResult is the outcome of generating VCs for one function.
type FuncResult struct {
	Func        string
	Mode        string
	Status      string // ok | unsupported | stale | contract-error | missing
	Error       string
	Obligations []*Obligation
	Notes       []string
	Trusted     []string
	Loops       int
	Passes      int
	File        string
	Line        int
}

func newFx(e *Engine, pi *PkgInfo, fn *ssa.Function, spec *FuncSpec) *FuncVC {
	fx := &FuncVC{eng: e, fn: fn, spec: spec, pkg: pi, bv: spec.Mode == "bv",
		declared: map[string]Sort{}, counter: map[string]int{}, kindCnt: map[string]int{},
		trusted: map[string]bool{}, strLits: map[string]StrV{}, globals: map[*ssa.Global]PtrV{},
		havoc: map[*ssa.BasicBlock]*havocSet{}, cellByInstr: map[ssa.Instruction]*Cell{}}
	return fx
}

func (fx *FuncVC) reset() {
	fx.decls = nil
	fx.declared = map[string]Sort{}
	fx.assumps = nil
	fx.obls = nil
	fx.counter = map[string]int{}
	fx.kindCnt = map[string]int{}
	fx.strLits = map[string]StrV{}
	fx.globals = map[*ssa.Global]PtrV{}
	fx.notes = nil
	fx.trusted = map[string]bool{}
	fx.dirty = false
	fx.active = nil
	fx.depth = 0
	fx.regions = nil
	fx.recDefs = nil
	fx.defAx = nil
}

// VerifyFunc generates the obligations of one function under contract.
func (e *Engine) VerifyFunc(pi *PkgInfo, spec *FuncSpec) (res *FuncResult) {
	res = &FuncResult{Func: pi.Short + "." + spec.Name, Mode: spec.Mode, File: spec.File, Line: spec.Line}
	fn := e.FindFunc(pi, spec.Name)
	if fn == nil {
		res.Status = "stale"
		res.Error = "contract names a function that does not exist: " + spec.Name
		return
	}
	if spec.Trusted || spec.Inline {
		res.Status = "skipped"
		return
	}
	fx := newFx(e, pi, fn, spec)
	defer func() {
		if r := recover(); r != nil {
			switch x := r.(type) {
			case unsupportedErr:
				res.Status = "unsupported"
				res.Error = string(x)
			case contractErr:
				res.Status = "contract-error"
				res.Error = string(x)
			case staleErr:
				res.Status = "stale"
				res.Error = string(x)
			default:
				res.Status = "engine-error"
				res.Error = fmt.Sprintf("%v\n%s", r, debug.Stack())
			}
			res.Obligations = nil
		}
	}()
	for pass := 1; pass <= 12; pass++ {
		fx.reset()
		fx.runTop()
		res.Passes = pass
		if !fx.dirty {
			break
		}
		if pass == 12 {
			panic(unsupported("havoc sets did not stabilise"))
		}
	}
	res.Status = "ok"
	res.Obligations = fx.obls
	res.Notes = append(res.Notes, fx.notes...)
	res.Notes = append(res.Notes, spec.Unchecked...)
	for t := range fx.trusted {
		res.Trusted = append(res.Trusted, t)
	}
	sortStrings(res.Trusted)
	if !spec.Overflow && !fx.bv {
		res.Notes = append(res.Notes, "plain int treated as a mathematical integer (no overflow obligations)")
	}
	return
}

func (fx *FuncVC) runTop() {
	fn := fx.fn
	spec := fx.spec
	fx.alloc0 = fx.fresh("alloc0", SInt)
	fx.assumeRaw(Lt(IntC(0), fx.alloc0, true))
	st := &State{pc: True, cells: map[*Cell]Val{}, heaps: map[string]T{}, alloc: fx.alloc0}
	fx.st = st
	fx.entry = &State{pc: True, cells: map[*Cell]Val{}, heaps: map[string]T{}, alloc: fx.alloc0}
	fx.paramEntry = map[string]Val{}
	var params []Val
	for i, p := range fn.Params {
		v := fx.freshVal(p.Type(), p.Name())
		if i == 0 && fn.Signature.Recv() != nil && spec.Options["nilable-receiver"] == "" {
			if pv, ok := v.(PtrV); ok {
				fx.assumeRaw(Not(Eq(pv.Ref, IntC(0))))
			}
		}
		params = append(params, v)
		fx.paramEntry[p.Name()] = v
	}
	// preconditions
	env := &Env{fx: fx, st: fx.entry, vars: map[string]Val{}, pkg: fx.pkg}
	for k, v := range fx.paramEntry {
		env.vars[k] = v
	}
	fx.assumeTables()
	for _, r := range spec.Requires {
		fx.assume(fx.evalBool(env, r.E, r))
	}
	fx.regions = fx.evalRegions(env, spec.Modifies)
	fx.cover("pre-sat", fn.Pos(), "preconditions are satisfiable")
	// make the entry heaps of this state those of fx.entry
	for k, v := range fx.entry.heaps {
		st.heaps[k] = v
	}
	fr := &frame{fn: fn, spec: spec, regs: map[ssa.Value]Val{}, cells: map[*ssa.Alloc]*Cell{}, params: params, top: true}
	rets := fx.runBody(fr)
	// postconditions at each return
	for _, rp := range rets {
		fx.st = rp.st
		fx.active = nil
		post := &Env{fx: fx, st: rp.st, vars: map[string]Val{}, pkg: fx.pkg, old: env}
		for k, v := range fx.paramEntry {
			post.vars[k] = v
		}
		fx.bindResults(post, fn, rp.vals)
		for _, en := range spec.Ensures {
			for _, cj := range conjuncts(en.E) {
				g := fx.evalBool(post, cj, en)
				fx.oblige("post", g, rp.pos, "postcondition: "+ExprString(cj))
			}
		}
		fx.cover("reach", rp.pos, "return is reachable")
	}
	if len(rets) == 0 {
		fx.note("function has no reachable return")
	}
}

// Query renders the SMT-LIB query of an obligation.
func (o *Obligation) Query(withModel bool) string { return o.query(withModel, false) }

// QueryNoDefs is the query without the quantified definitional axioms (used for covers, where
// the solver cannot build a model of the quantified axioms).
func (o *Obligation) QueryNoDefs() string { return o.query(false, true) }

func (o *Obligation) query(withModel, dropDefs bool) string {
	fx := o.fx
	var b strings.Builder
	b.WriteString("(set-option :produce-models true)\n(set-logic ALL)\n")
	for _, d := range fx.decls[:o.NDecl] {
		b.WriteString(d)
		b.WriteByte('\n')
	}
	// later declarations may be referenced by earlier assumptions? No: assumptions only use names declared before them.
	for i, a := range fx.assumps[:o.NAssume] {
		if dropDefs && fx.defAx[i] {
			continue
		}
		b.WriteString(a)
		b.WriteByte('\n')
	}
	b.WriteString("(assert " + o.PC.S + ")\n")
	if o.Expect != "sat" {
		b.WriteString("(assert (not " + o.Goal.S + "))\n")
	}
	b.WriteString("(check-sat)\n")
	if withModel {
		b.WriteString("(get-model)\n")
	}
	return b.String()
}

var _ = types.Typ
