package vc

import "golang.org/x/tools/go/ssa"

// allocEscapesAsValue reports whether the pointer produced by an Alloc is used as a value (stored,
// passed, returned, compared, merged) rather than only dereferenced or projected.
func allocEscapesAsValue(x *ssa.Alloc) bool {
	refs := x.Referrers()
	if refs == nil {
		return false
	}
	for _, r := range *refs {
		switch y := r.(type) {
		case *ssa.Store:
			if y.Val == ssa.Value(x) {
				return true
			}
		case *ssa.UnOp, *ssa.FieldAddr, *ssa.IndexAddr, *ssa.DebugRef:
		case *ssa.Slice:
			// slicing an array variable: handled by the array path
		default:
			return true
		}
	}
	return false
}
