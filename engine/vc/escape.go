package vc

import "golang.org/x/tools/go/ssa"

// allocEscapesAsValue reports whether the pointer produced by an Alloc is used as a value (stored,
// passed, returned, compared, merged) rather than only dereferenced or projected.
func allocEscapesAsValue(x *ssa.Alloc) bool {
	refs := x.Referrers()
	if refs == nil {
		return false
	}
	for _, r := range *refs {
		switch y := r.(type) {
		case *ssa.Store:
			if y.Val == ssa.Value(x) {
				return true
			}
		case *ssa.UnOp, *ssa.FieldAddr, *ssa.IndexAddr, *ssa.DebugRef:
		case *ssa.Slice:
			// slicing an array variable: handled by the array path
		default:
			return true
		}
	}
	return false
}

// callsRecover reports whether fn or one of its closures calls the recover builtin. go/ssa gives
// every function with a defer and named results a "recover" block; without a call of recover() that
// block is dead code (a panic simply propagates), so such functions are within the subset.
func callsRecover(fn *ssa.Function) bool {
	for _, b := range fn.Blocks {
		for _, in := range b.Instrs {
			var cc *ssa.CallCommon
			switch x := in.(type) {
			case *ssa.Call:
				cc = &x.Call
			case *ssa.Defer:
				cc = &x.Call
			case *ssa.Go:
				cc = &x.Call
			}
			if cc != nil {
				if bi, ok := cc.Value.(*ssa.Builtin); ok && bi.Name() == "recover" {
					return true
				}
			}
		}
	}
	for _, a := range fn.AnonFuncs {
		if callsRecover(a) {
			return true
		}
	}
	return false
}

// isSliced: a local array (var buf [N]T) that is sliced (buf[:0]) serves as the backing array of a
// slice and therefore lives in the element heap like every other backing array.
func isSliced(a *ssa.Alloc) bool {
	if a.Referrers() == nil {
		return false
	}
	for _, r := range *a.Referrers() {
		if s, ok := r.(*ssa.Slice); ok && s.X == a {
			return true
		}
	}
	return false
}

// smallLoopFree: a function with a body of at most 12 basic blocks, no back edge (blocks are in
// reverse post-order only for reducible graphs: any edge to an earlier-or-equal block index counts)
// and no direct call of itself. Such a callee can be executed in place instead of being summarised
// by a contract.
func smallLoopFree(fn *ssa.Function) bool {
	if len(fn.Blocks) == 0 || len(fn.Blocks) > 12 || fn.Recover != nil {
		return false
	}
	for _, b := range fn.Blocks {
		for _, s := range b.Succs {
			if s.Index <= b.Index {
				return false
			}
		}
		for _, in := range b.Instrs {
			if c, ok := in.(ssa.CallInstruction); ok {
				if callee := c.Common().StaticCallee(); callee == fn {
					return false
				}
			}
			switch in.(type) {
			case *ssa.Go, *ssa.Defer, *ssa.Select, *ssa.Send:
				return false
			}
		}
	}
	return true
}
