package vc

// Constant tables: a package-level `var t = []T{literals}` (or [N]T) of integers that the package
// never writes. Generated lexers and parsers are driven by such tables. A `table` block in a contract
// file states closed facts about one; each fact is proved from the literal contents (kind "table")
// and assumed at the entry of every function that reads the table.

import (
	"fmt"
	"go/constant"
	"go/types"
	"math/big"

	"golang.org/x/tools/go/ssa"
)

type tableInfo struct {
	g       *ssa.Global
	elem    types.Type
	vals    []*big.Int
	slice   bool // []T (false: [N]T)
	why     string
	n       int  // number of elements
	runtime bool // elements are not plain integers: facts are evaluated on the initialised variable
}

// constTable returns the literal contents of the package-level variable name, or nil with a reason.
func (e *Engine) constTable(pi *PkgInfo, name string) (*tableInfo, string) {
	if e.tables == nil {
		e.tables = map[string]*tableInfo{}
	}
	key := pi.Path + "." + name
	if ti, ok := e.tables[key]; ok {
		if ti == nil {
			return nil, "not a constant table"
		}
		return ti, ti.why
	}
	ti, why := e.constTable1(pi, name)
	if ti != nil && !ti.runtime && len(ti.vals) > 512 {
		// a large literal (the lexers' transition tables: 2500 entries for tm, 16080 for js): quantified
		// facts over that many literal equalities are the slowest queries of the suite and the first to
		// time out on a loaded machine; they are evaluated on the initialised variable instead (exact
		// for a constant table, reported as decided by evaluation). Small tables stay with the solvers.
		ti.runtime = true
	}
	e.tables[key] = ti
	return ti, why
}

func (e *Engine) constTable1(pi *PkgInfo, name string) (*tableInfo, string) {
	g, ok := pi.SSA.Members[name].(*ssa.Global)
	if !ok {
		return nil, "no package-level variable " + name
	}
	gt := g.Type().(*types.Pointer).Elem()
	var elem types.Type
	isSlice := false
	switch u := under(gt).(type) {
	case *types.Slice:
		elem, isSlice = u.Elem(), true
	default:
		return nil, fmt.Sprintf("%s is not a slice of integers", name)
	}
	if !isInteger(elem) {
		// slices of structs (with nested slices): facts are evaluated on the initialised variable
		return e.generalTable(pi, name)
	}
	init := pi.SSA.Func("init")
	if init == nil {
		return nil, "package has no init function"
	}
	// every use of the variable in the package: the one initialising store, and loads whose value is only
	// indexed (for reading), measured or ranged over
	var theStore *ssa.Store
	for _, fn := range allFuncs(pi.SSA) {
		for _, b := range fn.Blocks {
			for _, in := range b.Instrs {
				for _, op := range in.Operands(nil) {
					if *op != ssa.Value(g) {
						continue
					}
					switch x := in.(type) {
					case *ssa.Store:
						if x.Addr == ssa.Value(g) && fn == init && theStore == nil {
							theStore = x
							continue
						}
						return nil, fmt.Sprintf("%s is assigned in %s", name, fn.Name())
					case *ssa.UnOp:
						if why := readOnlyUse(x, 0); why != "" {
							return nil, fmt.Sprintf("%s: %s in %s", name, why, fn.Name())
						}
					case *ssa.DebugRef:
					default:
						return nil, fmt.Sprintf("%s: its address is used by %T in %s", name, in, fn.Name())
					}
				}
			}
		}
	}
	if theStore == nil {
		return nil, name + " has no initialiser"
	}
	val := theStore.Val
	if u, isLoad := val.(*ssa.UnOp); isLoad {
		// NaiveForm: the literal goes through a local "complit" variable: *tmp = slice; v = *tmp; *g = v
		if tmp, isAlloc := u.X.(*ssa.Alloc); isAlloc {
			var only ssa.Value
			for _, r := range *tmp.Referrers() {
				if st, isStore := r.(*ssa.Store); isStore && st.Addr == ssa.Value(tmp) {
					if only != nil {
						return nil, name + " is not initialised by a single composite literal"
					}
					only = st.Val
				}
			}
			if only != nil {
				val = only
			}
		}
	}
	sl, ok := val.(*ssa.Slice)
	if !ok {
		return nil, name + " is not initialised by a composite literal"
	}
	arr, ok := sl.X.(*ssa.Alloc)
	if !ok || sl.Low != nil || sl.High != nil {
		return nil, name + " is not initialised by a composite literal"
	}
	at, ok := under(arr.Type().(*types.Pointer).Elem()).(*types.Array)
	if !ok {
		return nil, name + " is not initialised by a composite literal"
	}
	n := int(at.Len())
	vals := make([]*big.Int, n)
	for i := range vals {
		vals[i] = new(big.Int)
	}
	for _, ref := range *arr.Referrers() {
		switch x := ref.(type) {
		case *ssa.IndexAddr:
			c, ok := x.Index.(*ssa.Const)
			if !ok {
				return nil, name + ": literal with a computed index"
			}
			idx, _ := constant.Int64Val(constant.ToInt(c.Value))
			for _, r2 := range *x.Referrers() {
				st, ok := r2.(*ssa.Store)
				if !ok || st.Addr != ssa.Value(x) {
					return nil, name + ": literal element used otherwise than by a store"
				}
				cv, ok := st.Val.(*ssa.Const)
				if !ok || cv.Value == nil {
					return nil, name + ": literal with a non-constant element"
				}
				bi, ok := constant.Val(constant.ToInt(cv.Value)).(*big.Int)
				if !ok {
					i64, _ := constant.Int64Val(constant.ToInt(cv.Value))
					bi = big.NewInt(i64)
				}
				if idx < 0 || int(idx) >= n {
					return nil, name + ": literal index out of range"
				}
				vals[idx] = bi
			}
		case *ssa.Slice:
			if x != sl {
				return nil, name + ": literal array sliced twice"
			}
		case *ssa.DebugRef:
		default:
			return nil, fmt.Sprintf("%s: literal array used by %T", name, ref)
		}
	}
	return &tableInfo{g: g, elem: elem, vals: vals, slice: isSlice, n: len(vals)}, ""
}

// readOnlyUse checks that a value derived from a load of the table is only read.
func readOnlyUse(v ssa.Value, depth int) string {
	if depth > 6 {
		return "use too deep to follow"
	}
	refs := v.Referrers()
	if refs == nil {
		return ""
	}
	for _, r := range *refs {
		switch x := r.(type) {
		case *ssa.IndexAddr:
			for _, r2 := range *x.Referrers() {
				switch y := r2.(type) {
				case *ssa.UnOp:
				case *ssa.DebugRef:
				case *ssa.Store:
					if y.Addr == ssa.Value(x) {
						return "an element is assigned"
					}
					return "the address of an element is stored"
				default:
					return fmt.Sprintf("the address of an element is used by %T", r2)
				}
			}
		case *ssa.Index, *ssa.Range, *ssa.DebugRef:
		case *ssa.Slice:
			if why := readOnlyUse(x, depth+1); why != "" {
				return why
			}
		case *ssa.Call:
			if b, ok := x.Call.Value.(*ssa.Builtin); ok && (b.Name() == "len" || b.Name() == "cap") {
				continue
			}
			return "it is passed to a function"
		case *ssa.Store:
			if x.Val == v {
				// copying the slice header into a local is fine as long as that local is only read;
				// be conservative
				return "it is stored into a variable"
			}
		case *ssa.Phi:
			return "it flows into a phi"
		default:
			return fmt.Sprintf("it is used by %T", r)
		}
	}
	return ""
}

func allFuncs(p *ssa.Package) []*ssa.Function {
	var out []*ssa.Function
	var add func(f *ssa.Function)
	add = func(f *ssa.Function) {
		out = append(out, f)
		for _, a := range f.AnonFuncs {
			add(a)
		}
	}
	for _, m := range p.Members {
		switch x := m.(type) {
		case *ssa.Function:
			add(x)
		case *ssa.Type:
			for _, t := range []types.Type{x.Type(), types.NewPointer(x.Type())} {
				ms := p.Prog.MethodSets.MethodSet(t)
				for i := 0; i < ms.Len(); i++ {
					if fn := p.Prog.MethodValue(ms.At(i)); fn != nil && fn.Pkg == p && fn.Synthetic == "" {
						dup := false
						for _, o := range out {
							dup = dup || o == fn
						}
						if !dup {
							add(fn)
						}
					}
				}
			}
		}
	}
	return out
}

// tableHeader assumes the shape of the table variable in the ENTRY heap: a non-nil slice of the
// literal's length starting at offset 0.
func (fx *FuncVC) tableSlice(ti *tableInfo) SliceV {
	p := fx.globalPtr(ti.g)
	v := fx.loadPtr(fx.entry, p).(SliceV)
	return v
}

func (fx *FuncVC) assumeTableHeader(ti *tableInfo) SliceV {
	v := fx.tableSlice(ti)
	n := fx.idx(int64(ti.n))
	fx.assumeRaw(And(Lt(IntC(0), v.Base, true), Lt(v.Base, fx.alloc0, true), Eq(v.Off, fx.idx(0)), Eq(v.Len, n), Eq(v.Cap, n)))
	return v
}

// VerifyTable proves the facts of one table block from the literal contents.
func (e *Engine) VerifyTable(pi *PkgInfo, ts *TableSpec) (res *FuncResult) {
	res = &FuncResult{Func: pi.Short + ".table " + ts.Name, Mode: "int", File: ts.File, Line: ts.Line}
	ti, why := e.constTable(pi, ts.Name)
	if ti == nil {
		res.Status = "unsupported"
		res.Error = "not a constant table: " + why
		return
	}
	if ti.runtime {
		return e.VerifyRuntimeTable(pi, ts, ti)
	}
	spec := &FuncSpec{Name: "table " + ts.Name, File: ts.File, Line: ts.Line, Mode: "int", Loops: map[int]*LoopSpec{}, Options: map[string]string{}}
	fx := newFx(e, pi, nil, spec)
	defer func() {
		if r := recover(); r != nil {
			switch x := r.(type) {
			case unsupportedErr:
				res.Status, res.Error = "unsupported", string(x)
			case contractErr:
				res.Status, res.Error = "contract-error", string(x)
			default:
				panic(r)
			}
			res.Obligations = nil
		}
	}()
	fx.reset()
	fx.alloc0 = fx.fresh("alloc0", SInt)
	fx.assumeRaw(Lt(IntC(0), fx.alloc0, true))
	st := &State{pc: True, cells: map[*Cell]Val{}, heaps: map[string]T{}, alloc: fx.alloc0}
	fx.st = st
	fx.entry = st
	v := fx.assumeTableHeader(ti)
	// the literal contents
	for i, bv := range ti.vals {
		p := PtrV{Kind: pkElem, Base: v.Base, Idx: fx.idx(int64(i)), Root: ti.elem}
		cell := fx.loadPtr(st, p).(Sc)
		fx.assumeRaw(Eq(cell.T, IntBig(bv)))
	}
	env := &Env{fx: fx, st: st, vars: map[string]Val{}, pkg: pi}
	for _, f := range ts.Facts {
		for _, cj := range conjuncts(f.E) {
			g := fx.evalBool(env, cj, f)
			fx.oblige("table", g, 0, "table fact: "+ExprString(cj))
		}
	}
	res.Status = "ok"
	res.Obligations = fx.obls
	res.Notes = append(res.Notes, fmt.Sprintf("table %s: %d literal elements of type %s; never assigned and only read in package %s (checked on the SSA)", ts.Name, len(ti.vals), ti.elem, pi.Short))
	return
}

// assumeTables adds, at function entry, the header and the facts of every constant table the
// function (or a closure of it) reads.
func (fx *FuncVC) assumeTables() {
	cf := fx.pkg.Contracts
	if cf == nil || len(cf.Tables) == 0 || fx.fn == nil {
		return
	}
	used := map[string]bool{}
	var scan func(f *ssa.Function)
	scan = func(f *ssa.Function) {
		for _, b := range f.Blocks {
			for _, in := range b.Instrs {
				for _, op := range in.Operands(nil) {
					if g, ok := (*op).(*ssa.Global); ok && g.Pkg == fx.pkg.SSA {
						used[g.Name()] = true
					}
				}
			}
		}
		for _, a := range f.AnonFuncs {
			scan(a)
		}
	}
	scan(fx.fn)
	env := &Env{fx: fx, st: fx.entry, vars: map[string]Val{}, pkg: fx.pkg}
	for _, name := range cf.TableOrder {
		if !used[name] {
			continue
		}
		ti, _ := fx.eng.constTable(fx.pkg, name)
		if ti == nil {
			continue // VerifyTable reports it
		}
		fx.assumeTableHeader(ti)
		for _, f := range cf.Tables[name].Facts {
			fx.assumeRaw(fx.evalBool(env, f.E, f))
		}
		fx.note("facts of the constant table " + name + " are assumed here; each is proved from the literal contents by its own obligation (<pkg>.tables)")
	}
}

// constStringVar reports the value of a package-level string variable whose only assignment in its
// package is a constant initialiser and whose address is used for nothing but loads.
func (e *Engine) constStringVar(g *ssa.Global) (string, bool) {
	if e.constStrs == nil {
		e.constStrs = map[*ssa.Global]*string{}
	}
	if v, ok := e.constStrs[g]; ok {
		if v == nil {
			return "", false
		}
		return *v, true
	}
	e.constStrs[g] = nil
	if g.Pkg == nil || !isString(g.Type().(*types.Pointer).Elem()) {
		return "", false
	}
	init := g.Pkg.Func("init")
	var lit *string
	for _, fn := range allFuncs(g.Pkg) {
		for _, b := range fn.Blocks {
			for _, in := range b.Instrs {
				for _, op := range in.Operands(nil) {
					if *op != ssa.Value(g) {
						continue
					}
					switch x := in.(type) {
					case *ssa.Store:
						c, isConst := x.Val.(*ssa.Const)
						if x.Addr != ssa.Value(g) || fn != init || lit != nil || !isConst || c.Value == nil || c.Value.Kind() != constant.String {
							return "", false
						}
						s := constant.StringVal(c.Value)
						lit = &s
					case *ssa.UnOp, *ssa.DebugRef:
					default:
						return "", false
					}
				}
			}
		}
	}
	if lit == nil {
		return "", false
	}
	e.constStrs[g] = lit
	return *lit, true
}
