package vc

// Linear normalisation of Int terms: keeps index arithmetic canonical so that
// `off + (j - off)` becomes `j` (encoding rule R1: no arithmetic inside triggers).

import (
	"sort"
	"strconv"
	"strings"
	"sync"
)

type linForm struct {
	atoms map[string]int64
	c     int64
}

var (
	linMu    sync.Mutex
	linCache = map[string]*linForm{}
)

func linOf(t T) *linForm {
	if v, ok := isIntLit(t); ok {
		return &linForm{c: v}
	}
	linMu.Lock()
	l, ok := linCache[t.S]
	linMu.Unlock()
	if ok {
		return l
	}
	return &linForm{atoms: map[string]int64{t.S: 1}}
}

func (l *linForm) scale(k int64) *linForm {
	out := &linForm{atoms: map[string]int64{}, c: l.c * k}
	for a, c := range l.atoms {
		if c*k != 0 {
			out.atoms[a] = c * k
		}
	}
	return out
}

func (l *linForm) plus(m *linForm) *linForm {
	out := &linForm{atoms: map[string]int64{}, c: l.c + m.c}
	for a, c := range l.atoms {
		out.atoms[a] = c
	}
	for a, c := range m.atoms {
		out.atoms[a] += c
		if out.atoms[a] == 0 {
			delete(out.atoms, a)
		}
	}
	return out
}

func (l *linForm) render() T {
	if len(l.atoms) == 0 {
		return IntC(l.c)
	}
	keys := make([]string, 0, len(l.atoms))
	for a := range l.atoms {
		keys = append(keys, a)
	}
	sort.Strings(keys)
	var parts []string
	for _, a := range keys {
		c := l.atoms[a]
		switch {
		case c == 1:
			parts = append(parts, a)
		case c == -1:
			parts = append(parts, "(- "+a+")")
		case c < 0:
			parts = append(parts, "(* (- "+strconv.FormatInt(-c, 10)+") "+a+")")
		default:
			parts = append(parts, "(* "+strconv.FormatInt(c, 10)+" "+a+")")
		}
	}
	if l.c != 0 {
		parts = append(parts, IntC(l.c).S)
	}
	var s string
	if len(parts) == 1 {
		s = parts[0]
	} else {
		s = "(+ " + strings.Join(parts, " ") + ")"
	}
	t := T{s, SInt}
	if len(l.atoms) > 1 || l.c != 0 || l.atoms[keys[0]] != 1 {
		linMu.Lock()
		linCache[s] = l
		linMu.Unlock()
	}
	return t
}

func linAdd(a, b T) T { return linOf(a).plus(linOf(b)).render() }
func linSub(a, b T) T { return linOf(a).plus(linOf(b).scale(-1)).render() }
func linNeg(a T) T    { return linOf(a).scale(-1).render() }
func linMulC(a T, k int64) T {
	return linOf(a).scale(k).render()
}
