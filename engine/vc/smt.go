package vc

import (
	"fmt"
	"math/big"
	"strconv"
	"strings"
)

// Sort is an SMT-LIB sort.
type Sort string

const (
	SInt  Sort = "Int"
	SBool Sort = "Bool"
)

func SBV(w int) Sort      { return Sort(fmt.Sprintf("(_ BitVec %d)", w)) }
func SArr(i, e Sort) Sort { return Sort("(Array " + string(i) + " " + string(e) + ")") }

func (s Sort) IsBV() bool { return strings.HasPrefix(string(s), "(_ BitVec") }
func (s Sort) Width() int {
	var w int
	fmt.Sscanf(string(s), "(_ BitVec %d)", &w)
	return w
}
func (s Sort) IsArr() bool { return strings.HasPrefix(string(s), "(Array ") }

// ArrParts splits an array sort into index and element sorts.
func (s Sort) ArrParts() (Sort, Sort) {
	str := string(s)
	str = str[len("(Array ") : len(str)-1]
	// index sort is first s-expression
	depth := 0
	for i, c := range str {
		switch c {
		case '(':
			depth++
		case ')':
			depth--
		case ' ':
			if depth == 0 {
				return Sort(str[:i]), Sort(str[i+1:])
			}
		}
	}
	panic("bad array sort " + string(s))
}

// T is an SMT term with its sort.
type T struct {
	S    string
	Sort Sort
}

func (t T) String() string { return t.S }

var (
	True  = T{"true", SBool}
	False = T{"false", SBool}
)

func IntC(v int64) T {
	if v < 0 {
		return T{fmt.Sprintf("(- %d)", -v), SInt}
	}
	return T{fmt.Sprintf("%d", v), SInt}
}

func IntBig(v *big.Int) T {
	if v.Sign() < 0 {
		return T{"(- " + new(big.Int).Neg(v).String() + ")", SInt}
	}
	return T{v.String(), SInt}
}

func BVC(v *big.Int, w int) T {
	m := new(big.Int).Lsh(big.NewInt(1), uint(w))
	x := new(big.Int).Mod(v, m)
	return T{fmt.Sprintf("(_ bv%s %d)", x.String(), w), SBV(w)}
}

func app(op string, sort Sort, args ...T) T {
	var b strings.Builder
	b.WriteByte('(')
	b.WriteString(op)
	for _, a := range args {
		b.WriteByte(' ')
		b.WriteString(a.S)
	}
	b.WriteByte(')')
	return T{b.String(), sort}
}

func Not(a T) T {
	switch a.S {
	case "true":
		return False
	case "false":
		return True
	}
	if strings.HasPrefix(a.S, "(not ") {
		return T{a.S[5 : len(a.S)-1], SBool}
	}
	return app("not", SBool, a)
}

func And(xs ...T) T {
	var ys []T
	for _, x := range xs {
		if x.S == "true" {
			continue
		}
		if x.S == "false" {
			return False
		}
		ys = append(ys, x)
	}
	switch len(ys) {
	case 0:
		return True
	case 1:
		return ys[0]
	}
	return app("and", SBool, ys...)
}

func Or(xs ...T) T {
	var ys []T
	for _, x := range xs {
		if x.S == "false" {
			continue
		}
		if x.S == "true" {
			return True
		}
		ys = append(ys, x)
	}
	switch len(ys) {
	case 0:
		return False
	case 1:
		return ys[0]
	}
	return app("or", SBool, ys...)
}

func Implies(a, b T) T {
	if a.S == "true" {
		return b
	}
	if a.S == "false" || b.S == "true" {
		return True
	}
	return app("=>", SBool, a, b)
}

func Eq(a, b T) T {
	if a.S == b.S {
		return True
	}
	if a.Sort != b.Sort {
		panic(fmt.Sprintf("Eq: sort mismatch %s:%s vs %s:%s", a.S, a.Sort, b.S, b.Sort))
	}
	return app("=", SBool, a, b)
}

func Ite(c, a, b T) T {
	if c.S == "true" {
		return a
	}
	if c.S == "false" {
		return b
	}
	if a.S == b.S {
		return a
	}
	if a.Sort != b.Sort {
		panic(fmt.Sprintf("Ite: sort mismatch %s:%s vs %s:%s", a.S, a.Sort, b.S, b.Sort))
	}
	if a.Sort == SBool {
		if a.S == "true" && b.S == "false" {
			return c
		}
		if a.S == "false" && b.S == "true" {
			return Not(c)
		}
	}
	return app("ite", a.Sort, c, a, b)
}

func Select(a, i T) T {
	is, es := a.Sort.ArrParts()
	if is != i.Sort {
		panic(fmt.Sprintf("Select: index sort mismatch %s vs %s (%s[%s])", is, i.Sort, a.S, i.S))
	}
	return app("select", es, a, i)
}

func Store(a, i, v T) T {
	is, es := a.Sort.ArrParts()
	if is != i.Sort || es != v.Sort {
		panic(fmt.Sprintf("Store: sort mismatch arr=%s idx=%s val=%s", a.Sort, i.Sort, v.Sort))
	}
	return app("store", a.Sort, a, i, v)
}

func ConstArr(s Sort, v T) T {
	return T{fmt.Sprintf("((as const %s) %s)", s, v.S), s}
}

// isIntLit reports whether t is a literal integer and returns it.
func isIntLit(t T) (int64, bool) {
	var v int64
	if t.Sort != SInt {
		return 0, false
	}
	if n, err := fmt.Sscanf(t.S, "%d", &v); err == nil && n == 1 && fmt.Sprintf("%d", v) == t.S {
		return v, true
	}
	if n, err := fmt.Sscanf(t.S, "(- %d)", &v); err == nil && n == 1 && fmt.Sprintf("(- %d)", v) == t.S {
		return -v, true
	}
	return 0, false
}

// Arithmetic helpers dispatching on sort (Int or BitVec).

// bvLit reads a bit-vector literal "(_ bvN W)".
func bvLit(t T) (*big.Int, int, bool) {
	if !strings.HasPrefix(t.S, "(_ bv") || !strings.HasSuffix(t.S, ")") {
		return nil, 0, false
	}
	f := strings.Fields(t.S[5 : len(t.S)-1])
	if len(f) != 2 {
		return nil, 0, false
	}
	v, ok := new(big.Int).SetString(f[0], 10)
	w, err := strconv.Atoi(f[1])
	if !ok || err != nil {
		return nil, 0, false
	}
	return v, w, true
}

func Add(a, b T) T {
	if a.Sort.IsBV() {
		if x, w, ok := bvLit(a); ok {
			if y, _, ok := bvLit(b); ok {
				return BVC(new(big.Int).Add(x, y), w)
			}
			if x.Sign() == 0 {
				return b
			}
		}
		if y, _, ok := bvLit(b); ok && y.Sign() == 0 {
			return a
		}
		// x + (j - x) = j (quantifiers re-based onto the absolute index of a backing array)
		if strings.HasPrefix(b.S, "(bvsub ") && strings.HasSuffix(b.S, " "+a.S+")") && len(b.S) > len("(bvsub ")+len(a.S)+2 {
			return T{b.S[len("(bvsub ") : len(b.S)-len(a.S)-2], a.Sort}
		}
		if strings.HasPrefix(a.S, "(bvsub ") && strings.HasSuffix(a.S, " "+b.S+")") && len(a.S) > len("(bvsub ")+len(b.S)+2 {
			return T{a.S[len("(bvsub ") : len(a.S)-len(b.S)-2], a.Sort}
		}
		return app("bvadd", a.Sort, a, b)
	}
	return linAdd(a, b)
}

func Sub(a, b T) T {
	if a.Sort.IsBV() {
		if y, w, ok := bvLit(b); ok {
			if x, _, ok := bvLit(a); ok {
				return BVC(new(big.Int).Sub(x, y), w)
			}
			if y.Sign() == 0 {
				return a
			}
		}
		return app("bvsub", a.Sort, a, b)
	}
	return linSub(a, b)
}

func Mul(a, b T) T {
	if a.Sort.IsBV() {
		return app("bvmul", a.Sort, a, b)
	}
	if x, ok := isIntLit(a); ok {
		return linMulC(b, x)
	}
	if y, ok := isIntLit(b); ok {
		return linMulC(a, y)
	}
	return app("*", SInt, a, b)
}

func Neg(a T) T {
	if a.Sort.IsBV() {
		return app("bvneg", a.Sort, a)
	}
	return linNeg(a)
}

func Lt(a, b T, signed bool) T {
	if a.Sort.IsBV() {
		if signed {
			return app("bvslt", SBool, a, b)
		}
		return app("bvult", SBool, a, b)
	}
	return app("<", SBool, a, b)
}

func Le(a, b T, signed bool) T {
	if a.Sort.IsBV() {
		if signed {
			return app("bvsle", SBool, a, b)
		}
		return app("bvule", SBool, a, b)
	}
	return app("<=", SBool, a, b)
}

// truncDiv is Go's truncated division on mathematical integers.
func truncDivInt(a, b T) T {
	// a / b truncated toward zero: ite(a>=0, a div |b| * sign(b) ... ) use standard identity
	// q = a div b (SMT floor-ish for positive divisor). Go: trunc.
	// trunc(a/b) = ite(a >= 0, (div a b), (- (div (- a) b)))   -- valid for any b != 0 given SMT div semantics:
	// SMT div: a = b*q + r with 0<=r<|b|. For a>=0: q = trunc when b>0; when b<0: div(a,b) = -(a div -b) ... = trunc. ok.
	// For a<0: -( (-a) div b ) = -trunc(-a/b) = trunc(a/b).
	return Ite(app(">=", SBool, a, IntC(0)), app("div", SInt, a, b), app("-", SInt, app("div", SInt, app("-", SInt, a), b)))
}

func truncRemInt(a, b T) T {
	// a - b*trunc(a/b)
	return app("-", SInt, a, app("*", SInt, b, truncDivInt(a, b)))
}

func pow2(n uint) *big.Int { return new(big.Int).Lsh(big.NewInt(1), n) }
