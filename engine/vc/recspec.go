package vc

// Recursive specification functions.
//
// A `spec func f(params) T = body` whose body calls f is translated to an uninterpreted SMT
// function with an unfolding axiom limited by fuel (the Dafny encoding):
//
//	forall fuel, params, heaps :: fuel > 0 ==> f(fuel, params, heaps) == body[f := f(fuel-1, ...)]   pattern f(fuel, ...)
//	forall fuel, params, heaps :: f(fuel, params, heaps) == f(0, params, heaps)                       pattern f(fuel, ...)
//
// Calls in contracts use fuel 2.  The heaps the body reads are discovered by evaluating the body
// against a symbolic state and passed as extra arguments, so the same function symbol is usable
// in every program state.  Nothing is assumed about f beyond its own definition; its
// well-foundedness is an obligation (rec-decreases): every recursive call, under the conditions of
// the enclosing ?: branches, strictly decreases the declared measure, which is bounded below.

import (
	"fmt"
	"go/types"
	"sort"
	"strings"
)

type recDef struct {
	name   string
	shapes []Val // bound-variable values of the parameters
	bvars  []T
	heaps  []string
	hsorts map[string]Sort
	ret    Sort
	retTyp types.Type
	calls  []recCall
	// element heaps that the body reads only at the backing arrays of these slice parameters
	restrict map[string][]int
}

// recCall is one recursive call inside the definition: the condition under which it is
// evaluated and the measure of its arguments.
type recCall struct {
	guard   T
	measure T
}

type symHeaps struct {
	names []string
	sorts map[string]Sort
}

const recFuel = 2

func (fx *FuncVC) boundLike(v Val, hint string, out *[]T) Val {
	mk := func(s string, sort Sort) T {
		t := T{fmt.Sprintf("%s?%s", sanitize(hint), s), sort}
		*out = append(*out, t)
		return t
	}
	switch v := v.(type) {
	case Sc:
		return Sc{mk("v", v.T.Sort), v.Typ}
	case SliceV:
		return SliceV{mk("b", v.Base.Sort), mk("o", v.Off.Sort), mk("l", v.Len.Sort), mk("c", v.Cap.Sort), v.Typ}
	case StrV:
		return StrV{mk("b", v.Base.Sort), mk("o", v.Off.Sort), mk("l", v.Len.Sort)}
	case PtrV:
		if v.Kind == pkHeap && len(v.Path) == 0 {
			n := v
			n.Ref = mk("r", v.Ref.Sort)
			return n
		}
	}
	cfail("recursive spec function: unsupported parameter shape %T", v)
	return nil
}

// callRec translates a call of a recursive spec function.
func (e *Env) callRec(ps *PredSpec, x *CallE) Val {
	fx := e.fx
	var args []Val
	for _, a := range x.Args {
		v := e.eval(a)
		if p, ok := v.(PtrV); ok && p.Kind != pkHeap {
			v = fx.loadPtr(e.st, p)
		}
		args = append(args, v)
	}
	def := fx.recDefs[ps.Name]
	if def == nil {
		def = fx.defineRec(ps, args, e)
	}
	var fuel T = IntC(recFuel)
	if e.recFuel != nil {
		fuel = Sub(*e.recFuel, IntC(1))
	}
	terms := []T{fuel}
	for i, a := range args {
		fl := flat(a)
		want := flat(def.shapes[i])
		if len(fl) != len(want) {
			cfail("%s: argument %d has a different shape than at its first use", ps.Name, i+1)
		}
		for j := range fl {
			if fl[j].Sort != want[j].Sort {
				cfail("%s: argument %d has sort %s, expected %s", ps.Name, i+1, fl[j].Sort, want[j].Sort)
			}
		}
		terms = append(terms, fl...)
	}
	for _, h := range def.heaps {
		ht := fx.heap(e.st, h, def.hsorts[h])
		if idx, ok := def.restrict[h]; ok && e.st.sym == nil {
			// The body reads this element heap only through the backing arrays of slice
			// arguments: pass a heap that agrees with the current one on those arrays only, so
			// that writes to other arrays leave the value of the function unchanged (no
			// induction needed for framing).
			_, inner := def.hsorts[h].ArrParts()
			r := ConstArr(def.hsorts[h], fx.zeroOfSort(inner))
			for _, ai := range idx {
				if sv, ok := args[ai].(SliceV); ok {
					r = Store(r, sv.Base, Select(ht, sv.Base))
				}
			}
			ht = r
		}
		terms = append(terms, ht)
	}
	if e.recFuel != nil && e.recOf == ps.Name {
		// a recursive call inside the definition: remember (guard, measure of the callee) for the
		// well-foundedness obligation
		n := e.child()
		n.vars = map[string]Val{}
		for i, p := range ps.Params {
			n.vars[p.Name] = args[i]
		}
		n.recFuel = nil
		g := e.guard
		if g.S == "" {
			g = True
		}
		def.calls = append(def.calls, recCall{g, n.intT(ps.Decreases)})
	}
	t := app(def.name, def.ret, terms...)
	if e.pats != nil && e.bound != nil {
		for b := range e.bound {
			if strings.Contains(t.S, b) {
				*e.pats = append(*e.pats, t.S)
				break
			}
		}
	}
	return Sc{t, def.retTyp}
}

func (fx *FuncVC) defineRec(ps *PredSpec, args []Val, e *Env) *recDef {
	if fx.recDefs == nil {
		fx.recDefs = map[string]*recDef{}
	}
	if ps.Decreases == nil && ps.Rec {
		cfail("recursive spec function %s needs a decreases clause (spec func f(..) T decreases m = body)", ps.Name)
	}
	def := &recDef{name: "rec_" + sanitize(ps.Name), hsorts: map[string]Sort{}}
	switch ps.Ret {
	case "bool":
		def.ret, def.retTyp = SBool, types.Typ[types.Bool]
	default:
		def.retTyp = types.Typ[types.Int]
		def.ret = fx.intSortOf(def.retTyp)
	}
	for i, a := range args {
		def.shapes = append(def.shapes, fx.boundLike(a, fmt.Sprintf("%s_%s", ps.Name, ps.Params[i].Name), &def.bvars))
	}
	fx.recDefs[ps.Name] = def
	pk := fx.eng.predPkg(e.pkg, ps.Name)
	if pk == nil {
		pk = e.pkg
	}
	fuel := T{"fuel?" + sanitize(ps.Name), SInt}
	var body, measure T
	for round := 0; ; round++ {
		sym := &symHeaps{sorts: map[string]Sort{}}
		for _, h := range def.heaps {
			sym.names = append(sym.names, h)
			sym.sorts[h] = def.hsorts[h]
		}
		st := &State{pc: True, cells: map[*Cell]Val{}, heaps: map[string]T{}, alloc: fx.alloc0, sym: sym}
		n := &Env{fx: fx, st: st, vars: map[string]Val{}, pkg: pk, depth: e.depth + 1, recFuel: &fuel, recOf: ps.Name}
		def.calls = nil
		for i, p := range ps.Params {
			n.vars[p.Name] = def.shapes[i]
		}
		v := n.eval(ps.Body)
		sc, ok := v.(Sc)
		if !ok {
			cfail("recursive spec function %s must return a scalar", ps.Name)
		}
		body = sc.T
		if ps.Decreases != nil {
			m := n.child()
			m.recFuel = nil
			measure = m.intT(ps.Decreases)
		}
		if len(sym.names) == len(def.heaps) {
			break
		}
		def.heaps = append([]string(nil), sym.names...)
		for k, s := range sym.sorts {
			def.hsorts[k] = s
		}
		if round > 6 {
			cfail("recursive spec function %s: heap dependencies did not stabilise", ps.Name)
		}
	}
	// element heaps read only at the backing arrays of slice parameters can be passed restricted
	def.restrict = map[string][]int{}
	for _, h := range def.heaps {
		hs := def.hsorts[h]
		if !hs.IsArr() {
			continue
		}
		if _, inner := hs.ArrParts(); !inner.IsArr() {
			continue
		}
		bases := map[string]int{}
		for i, sh := range def.shapes {
			if sv, ok := sh.(SliceV); ok {
				bases[sv.Base.S] = i
			}
		}
		marker := "(select " + symHeapVar(h) + " "
		okAll := true
		used := map[int]bool{}
		for _, txt := range []string{body.S, measure.S} {
			for rest := txt; ; {
				k := strings.Index(rest, marker)
				if k < 0 {
					break
				}
				rest = rest[k+len(marker):]
				end := strings.IndexAny(rest, " )")
				if end < 0 {
					okAll = false
					break
				}
				if ai, isBase := bases[rest[:end]]; isBase {
					used[ai] = true
				} else {
					okAll = false
				}
			}
		}
		// a bare occurrence of the heap variable (e.g. passed on to another function) defeats the argument
		if strings.Count(body.S, symHeapVar(h)) != strings.Count(body.S, marker)+strings.Count(body.S, symHeapVar(h)+")") {
			okAll = false
		}
		if okAll && len(used) > 0 {
			var idx []int
			for ai := range used {
				idx = append(idx, ai)
			}
			sort.Ints(idx)
			def.restrict[h] = idx
		}
	}
	if body.Sort != def.ret {
		cfail("recursive spec function %s: body has sort %s, declared %s", ps.Name, body.Sort, def.ret)
	}
	sorts := []Sort{SInt}
	binders := []string{fmt.Sprintf("(%s Int)", fuel.S)}
	callArgs := []T{fuel}
	zeroArgs := []T{IntC(0)}
	for _, b := range def.bvars {
		sorts = append(sorts, b.Sort)
		binders = append(binders, fmt.Sprintf("(%s %s)", b.S, b.Sort))
		callArgs = append(callArgs, b)
		zeroArgs = append(zeroArgs, b)
	}
	for _, h := range def.heaps {
		hv := T{symHeapVar(h), def.hsorts[h]}
		sorts = append(sorts, hv.Sort)
		binders = append(binders, fmt.Sprintf("(%s %s)", hv.S, hv.Sort))
		callArgs = append(callArgs, hv)
		zeroArgs = append(zeroArgs, hv)
	}
	fx.declareFun(def.name, sorts, def.ret)
	// well-foundedness: every recursive call strictly decreases a measure that is bounded below.
	// The bound variables are declared as constants so that the goal is about arbitrary arguments;
	// the obligations are emitted before the unfolding axioms are assumed.
	for _, b := range append(append([]T{fuel}, def.bvars...), heapVars(def)...) {
		if _, ok := fx.declared[b.S]; !ok {
			fx.decls = append(fx.decls, fmt.Sprintf("(declare-const %s %s)", b.S, b.Sort))
			fx.declared[b.S] = b.Sort
		}
	}
	for _, c := range def.calls {
		fx.kindCnt["rec-decreases"]++
		fx.obls = append(fx.obls, &Obligation{
			Name: fmt.Sprintf("%s/rec-decreases#%d", fx.funcName(), fx.kindCnt["rec-decreases"]), Kind: "rec-decreases", Func: fx.funcName(),
			Goal: Implies(c.guard, And(Lt(c.measure, measure, true), Le(IntC(0), measure, true))), PC: True,
			NAssume: len(fx.assumps), NDecl: len(fx.decls), Text: "spec func " + ps.Name + ": recursive call decreases " + ExprString(ps.Decreases), fx: fx,
		})
	}
	self := app(def.name, def.ret, callArgs...)
	canon := app(def.name, def.ret, zeroArgs...)
	bs := strings.Join(binders, " ")
	fx.assumeDef(T{fmt.Sprintf("(forall (%s) (! (=> (> %s 0) (= %s %s)) :pattern (%s)))", bs, fuel.S, self.S, body.S, self.S), SBool})
	fx.assumeDef(T{fmt.Sprintf("(forall (%s) (! (= %s %s) :pattern (%s)))", bs, self.S, canon.S, self.S), SBool})
	return def
}

func heapVars(def *recDef) []T {
	var out []T
	for _, h := range def.heaps {
		out = append(out, T{symHeapVar(h), def.hsorts[h]})
	}
	return out
}

func symHeapVar(name string) string { return "hv?" + sanitize(name) }

func (s *symHeaps) get(name string, sort Sort) T {
	if _, ok := s.sorts[name]; !ok {
		s.names = append(s.names, name)
		s.sorts[name] = sort
	}
	return T{symHeapVar(name), sort}
}
