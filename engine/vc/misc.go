package vc

import (
	"fmt"
	"go/types"

	"golang.org/x/tools/go/ssa"
)

// ---- maps: functional-map abstraction (present/value arrays per map reference) ----

func (fx *FuncVC) mapHeaps(mt *types.Map) (keySorts []Sort, presentName string, valLeaves []Leaf, valNames []string) {
	for _, l := range fx.leavesOf(mt.Key()) {
		keySorts = append(keySorts, l.Sort)
	}
	k := typeKey(mt)
	presentName = "HM_" + k + "_present"
	valLeaves = fx.leavesOf(mt.Elem())
	for _, l := range valLeaves {
		valNames = append(valNames, "HM_"+k+"_val"+sanitize(l.Path))
	}
	return
}

func nestedArr(keys []Sort, elem Sort) Sort {
	s := elem
	for i := len(keys) - 1; i >= 0; i-- {
		s = SArr(keys[i], s)
	}
	return s
}

func selectN(a T, keys []T) T {
	for _, k := range keys {
		a = Select(a, k)
	}
	return a
}

func storeN(a T, keys []T, v T) T {
	if len(keys) == 0 {
		return v
	}
	return Store(a, keys[0], storeN(Select(a, keys[0]), keys[1:], v))
}

func (fx *FuncVC) mapInit(t types.Type, ref T) {
	mt := under(t).(*types.Map)
	ks, pn, vl, vn := fx.mapHeaps(mt)
	ps := SArr(SInt, nestedArr(ks, SBool))
	h := fx.heap(fx.st, pn, ps)
	nh := Store(h, ref, ConstArr(nestedArr(ks, SBool), False))
	if len(ks) > 1 {
		// nested const arrays: build inside-out
		inner := T{"false", SBool}
		s := SBool
		for i := len(ks) - 1; i >= 0; i-- {
			s = SArr(ks[i], s)
			inner = ConstArr(s, inner)
		}
		nh = Store(h, ref, inner)
	}
	c := fx.fresh(pn, ps)
	fx.assumeRaw(Eq(c, nh))
	fx.setHeap(pn, c)
	_ = vl
	_ = vn
}

func (fx *FuncVC) execLookup(fr *frame, x *ssa.Lookup) {
	m := fx.val(fr, x.X)
	if s, ok := m.(StrV); ok {
		_ = s
		panic("string lookup is ssa.Index")
	}
	mv := m.(Sc)
	mt := under(mv.Typ).(*types.Map)
	ks, pn, vl, vn := fx.mapHeaps(mt)
	keys := flat(fx.val(fr, x.Index))
	ph := fx.heap(fx.st, pn, SArr(SInt, nestedArr(ks, SBool)))
	present := And(Not(Eq(mv.T, IntC(0))), selectN(Select(ph, mv.T), keys))
	present = fx.define("present", present)
	var ls []T
	for i, l := range vl {
		vh := fx.heap(fx.st, vn[i], SArr(SInt, nestedArr(ks, l.Sort)))
		ls = append(ls, Ite(present, selectN(Select(vh, mv.T), keys), fx.zeroOfSort(l.Sort)))
	}
	v := fx.build(mt.Elem(), ls)
	v = fx.defineVal(x.Name(), v)
	fx.assumeLoaded(v, mt.Elem())
	if x.CommaOk {
		fr.regs[x] = TupleV{[]Val{v, Sc{present, types.Typ[types.Bool]}}}
	} else {
		fr.regs[x] = v
	}
}

func (fx *FuncVC) execMapUpdate(fr *frame, x *ssa.MapUpdate) {
	mv := fx.val(fr, x.Map).(Sc)
	mt := under(mv.Typ).(*types.Map)
	ks, pn, vl, vn := fx.mapHeaps(mt)
	keys := flat(fx.val(fr, x.Key))
	vals := flat(fx.val(fr, x.Value))
	fx.oblige("nil", Not(Eq(mv.T, IntC(0))), x.Pos(), "assignment to entry in nil map")
	ph := fx.heap(fx.st, pn, SArr(SInt, nestedArr(ks, SBool)))
	nph := Store(ph, mv.T, storeN(Select(ph, mv.T), keys, True))
	c := fx.fresh(pn, nph.Sort)
	fx.assumeRaw(Eq(c, nph))
	fx.setHeap(pn, c)
	for i, l := range vl {
		vh := fx.heap(fx.st, vn[i], SArr(SInt, nestedArr(ks, l.Sort)))
		nvh := Store(vh, mv.T, storeN(Select(vh, mv.T), keys, vals[i]))
		c := fx.fresh(vn[i], nvh.Sort)
		fx.assumeRaw(Eq(c, nvh))
		fx.setHeap(vn[i], c)
	}
}

func (fx *FuncVC) mapDelete(mv Sc, key Val, t types.Type) {
	mt := under(mv.Typ).(*types.Map)
	ks, pn, _, _ := fx.mapHeaps(mt)
	keys := flat(key)
	ph := fx.heap(fx.st, pn, SArr(SInt, nestedArr(ks, SBool)))
	nph := Store(ph, mv.T, storeN(Select(ph, mv.T), keys, False))
	c := fx.fresh(pn, nph.Sort)
	fx.assumeRaw(Eq(c, nph))
	fx.setHeap(pn, c)
}

func (fx *FuncVC) mapLen(mv Sc) Val {
	n := fx.fresh("maplen", fx.idxSort())
	fx.assume(Le(fx.idx(0), n, true))
	fx.note("len(map) treated as an arbitrary non-negative integer")
	return Sc{n, types.Typ[types.Int]}
}

// ---- range over strings / maps ----

func (fx *FuncVC) execRange(fr *frame, x *ssa.Range) {
	v := fx.val(fr, x.X)
	switch s := v.(type) {
	case StrV:
		cell := fx.cellFor(x, "rangeiter", types.Typ[types.Int])
		fx.st.cells[cell] = Sc{fx.idx(0), types.Typ[types.Int]}
		fr.regs[x] = TupleV{[]Val{s, PtrV{Kind: pkCell, Cell: cell, Root: types.Typ[types.Int]}}}
	default:
		panic(unsupported("range over %s (iteration order is not modelled)", x.X.Type()))
	}
}

func (fx *FuncVC) execNext(fr *frame, x *ssa.Next) {
	it, ok := fx.val(fr, x.Iter).(TupleV)
	if !ok || !x.IsString {
		panic(unsupported("next over a map"))
	}
	s := it.V[0].(StrV)
	p := it.V[1].(PtrV)
	pos := fx.loadPtr(fx.st, p).(Sc).T
	okT := fx.define("ok", Lt(pos, s.Len, true))
	// decode one rune at pos using the trusted contract of utf8.DecodeRuneInString
	r, w := fx.decodeRune(StrV{s.Base, Add(s.Off, pos), Sub(s.Len, pos)}, okT)
	fx.storePtr(p, Sc{Ite(okT, Add(pos, w), pos), types.Typ[types.Int]})
	fr.regs[x] = TupleV{[]Val{Sc{okT, types.Typ[types.Bool]}, Sc{pos, types.Typ[types.Int]}, Sc{r, types.Typ[types.Rune]}}}
}

// decodeRune returns (rune, width) of the first rune of s (valid when guard holds).
func (fx *FuncVC) decodeRune(s StrV, guard T) (T, T) {
	if fx.bv {
		panic(unsupported("rune decoding in mode bv"))
	}
	// the same uninterpreted functions as pureApp gives utf8.DecodeRuneInString, so that
	// contracts can name the rune and width at a position
	var sorts []Sort
	for _, t := range flat(s) {
		sorts = append(sorts, t.Sort)
	}
	n0 := fmt.Sprintf("pf_%s_%d", sanitize("utf8.DecodeRuneInString"), 0)
	n1 := fmt.Sprintf("pf_%s_%d", sanitize("utf8.DecodeRuneInString"), 1)
	fx.declareFun(n0, sorts, SInt)
	fx.declareFun(n1, sorts, SInt)
	r := fx.define("rune", app(n0, SInt, flat(s)...))
	w := fx.define("width", app(n1, SInt, flat(s)...))
	b0 := Select(Select(fx.strHeap(), s.Base), s.Off)
	fx.assume(Implies(guard, And(
		Le(IntC(1), w, true), Le(w, IntC(4), true), Le(w, s.Len, true),
		Le(IntC(0), r, true), Le(r, IntC(0x10FFFF), true),
		Implies(Lt(b0, IntC(0x80), true), And(Eq(r, b0), Eq(w, IntC(1)))),
		Implies(Le(IntC(0x80), b0, true), Le(IntC(0x80), r, true)),
		Implies(Lt(IntC(1), w, true), Le(IntC(0x80), b0, true)),
		Implies(Le(IntC(0x10000), r, true), Eq(w, IntC(4))),
		Implies(Eq(w, IntC(1)), Or(Lt(r, IntC(0x80), true), Eq(r, IntC(0xFFFD)))),
		// the continuation bytes of a multi-byte encoding are 0x80..0xBF
		Implies(Le(IntC(2), w, true), Le(IntC(0x80), Select(Select(fx.strHeap(), s.Base), Add(s.Off, IntC(1))), true)),
		Implies(Le(IntC(3), w, true), Le(IntC(0x80), Select(Select(fx.strHeap(), s.Base), Add(s.Off, IntC(2))), true)),
		Implies(Le(IntC(4), w, true), Le(IntC(0x80), Select(Select(fx.strHeap(), s.Base), Add(s.Off, IntC(3))), true)),
	)))
	fx.trusted["utf8 decoding (range over string): 1<=w<=4, ASCII byte decodes to itself with w=1, non-ASCII lead byte gives r>=0x80, r>=0x10000 has w=4, w=1 is ASCII or U+FFFD, every byte of a multi-byte encoding is >=0x80"] = true
	_ = fmt.Sprint
	return r, w
}
