package vc

// Contract files: comment-only Go files (//go:build verif) whose //@ lines carry contracts.

import (
	"fmt"
	"os"
	"regexp"
	"strings"
)

type Clause struct {
	Kind string // requires ensures invariant decreases modifies assert
	Text string
	E    Expr
	Line int
	File string
	// for modifies: list of expressions
	List []Expr
}

type LoopSpec struct {
	Ordinal    int
	Invariants []*Clause
	Decreases  *Clause
}

type Param struct {
	Name string
	Type string // contract-level type text (Go type syntax, resolved in the package scope)
}

type FuncSpec struct {
	Name      string // "hexval" or "Recv.Name"
	File      string
	Line      int
	Mode      string // int | bv
	Requires  []*Clause
	Ensures   []*Clause
	Modifies  []*Clause
	HasMod    bool
	Loops     map[int]*LoopSpec
	Inline    bool // no contract of its own; inlined at call sites
	Trusted   bool // contract assumed, body not verified (listed in evidence)
	Pure      bool // no heap effects; result is a function of arguments (opaque calls)
	Overflow  bool // check-overflow for plain int
	NoPanics  bool
	Ghost     []string
	Options   map[string]string
	Asserts   []*Clause
	Unchecked []string // free-text assumptions recorded in evidence
}

type PredSpec struct {
	Name      string
	Params    []Param
	Ret       string // "bool" for preds
	Rec       bool   // the body calls the function itself
	Decreases Expr   // measure of a recursive spec function
	BvAbs     bool   // `bvfun`: bit-level definition; abstract (uninterpreted over the memory it reads) in mode int
	AsFun     bool   // `fun`: kept as an uninterpreted function with a definitional axiom (gives quantifiers over its arguments a trigger)
	Body      Expr
	Text      string
	File      string
	Line      int
}

// TableSpec lists facts about a constant table: a package-level `var t = []T{literals}` that is
// never written. Each fact is a closed statement about the table; it is proved once from the
// literal contents (obligation kind "table") and then assumed wherever the table is read.
type TableSpec struct {
	Name  string
	File  string
	Line  int
	Facts []*Clause
}

type ContractFile struct {
	Path       string
	Funcs      map[string]*FuncSpec
	Preds      map[string]*PredSpec
	Order      []string
	Tables     map[string]*TableSpec
	TableOrder []string
}

var kwRe = regexp.MustCompile(`^(func|fun|bvfun|pred|spec|requires|ensures|invariant|decreases|modifies|loop|inline|trusted|pure|mode|check-overflow|assume-note|option|table|fact)\b`)

// ParseContractFile reads //@ lines.
func ParseContractFile(path string) (*ContractFile, error) {
	data, err := os.ReadFile(path)
	if err != nil {
		return nil, err
	}
	cf := &ContractFile{Path: path, Funcs: map[string]*FuncSpec{}, Preds: map[string]*PredSpec{}, Tables: map[string]*TableSpec{}}
	type item struct {
		kw, text string
		line     int
	}
	var items []item
	for i, ln := range strings.Split(string(data), "\n") {
		t := strings.TrimSpace(ln)
		if !strings.HasPrefix(t, "//@") {
			continue
		}
		t = strings.TrimSpace(t[3:])
		if t == "" || strings.HasPrefix(t, "#") {
			continue
		}
		// strip trailing "// comment" (only when preceded by two spaces to avoid eating operators)
		if k := strings.Index(t, "  // "); k >= 0 {
			t = strings.TrimSpace(t[:k])
		}
		if m := kwRe.FindString(t); m != "" {
			items = append(items, item{m, strings.TrimSpace(t[len(m):]), i + 1})
		} else {
			if len(items) == 0 {
				return nil, fmt.Errorf("%s:%d: continuation line without clause", path, i+1)
			}
			items[len(items)-1].text += " " + t
		}
	}
	var cur *FuncSpec
	var curLoop *LoopSpec
	var curTable *TableSpec
	mk := func(kind string, it item) (*Clause, error) {
		e, err := ParseExpr(it.text)
		if err != nil {
			return nil, fmt.Errorf("%s:%d: %v", path, it.line, err)
		}
		return &Clause{Kind: kind, Text: it.text, E: e, Line: it.line, File: path}, nil
	}
	for _, it := range items {
		switch it.kw {
		case "table":
			name := strings.TrimSpace(it.text)
			curTable = &TableSpec{Name: name, File: path, Line: it.line}
			if _, dup := cf.Tables[name]; dup {
				return nil, fmt.Errorf("%s:%d: duplicate table %s", path, it.line, name)
			}
			cf.Tables[name] = curTable
			cf.TableOrder = append(cf.TableOrder, name)
			cur, curLoop = nil, nil
		case "fact":
			if curTable == nil {
				return nil, fmt.Errorf("%s:%d: fact outside table", path, it.line)
			}
			c, err := mk("fact", it)
			if err != nil {
				return nil, err
			}
			curTable.Facts = append(curTable.Facts, c)
		case "func":
			curTable = nil
			name := strings.TrimSpace(it.text)
			cur = &FuncSpec{Name: name, File: path, Line: it.line, Mode: "int", Loops: map[int]*LoopSpec{}, Options: map[string]string{}}
			if _, dup := cf.Funcs[name]; dup {
				return nil, fmt.Errorf("%s:%d: duplicate contract for %s", path, it.line, name)
			}
			cf.Funcs[name] = cur
			cf.Order = append(cf.Order, name)
			curLoop = nil
		case "pred", "spec", "fun", "bvfun":
			txt := it.text
			if it.kw == "spec" {
				txt = strings.TrimSpace(strings.TrimPrefix(strings.TrimSpace(txt), "func"))
			}
			ps, err := parsePred(txt, it.kw == "pred")
			if err != nil {
				return nil, fmt.Errorf("%s:%d: %v", path, it.line, err)
			}
			ps.File, ps.Line = path, it.line
			ps.AsFun = it.kw == "fun"
			ps.BvAbs = it.kw == "bvfun"
			cf.Preds[ps.Name] = ps
			cur = nil
			curTable = nil
		default:
			if cur == nil {
				return nil, fmt.Errorf("%s:%d: clause outside func", path, it.line)
			}
			switch it.kw {
			case "requires", "ensures":
				c, err := mk(it.kw, it)
				if err != nil {
					return nil, err
				}
				if it.kw == "requires" {
					cur.Requires = append(cur.Requires, c)
				} else {
					cur.Ensures = append(cur.Ensures, c)
				}
				curLoop = nil
			case "modifies":
				cur.HasMod = true
				if strings.TrimSpace(it.text) != "nothing" && strings.TrimSpace(it.text) != "" {
					for _, part := range splitTop(it.text) {
						e, err := ParseExpr(part)
						if err != nil {
							return nil, fmt.Errorf("%s:%d: %v", path, it.line, err)
						}
						cur.Modifies = append(cur.Modifies, &Clause{Kind: "modifies", Text: part, E: e, Line: it.line, File: path})
					}
				}
			case "loop":
				var k int
				if _, err := fmt.Sscanf(strings.TrimSuffix(strings.TrimSpace(it.text), ":"), "%d", &k); err != nil {
					return nil, fmt.Errorf("%s:%d: bad loop ordinal %q", path, it.line, it.text)
				}
				curLoop = &LoopSpec{Ordinal: k}
				cur.Loops[k] = curLoop
			case "invariant":
				if curLoop == nil {
					return nil, fmt.Errorf("%s:%d: invariant outside loop", path, it.line)
				}
				c, err := mk("invariant", it)
				if err != nil {
					return nil, err
				}
				curLoop.Invariants = append(curLoop.Invariants, c)
			case "decreases":
				c, err := mk("decreases", it)
				if err != nil {
					return nil, err
				}
				if curLoop != nil {
					curLoop.Decreases = c
				}
			case "inline":
				cur.Inline = true
			case "trusted":
				cur.Trusted = true
				if it.text != "" {
					cur.Unchecked = append(cur.Unchecked, it.text)
				}
			case "pure":
				cur.Pure = true
			case "mode":
				cur.Mode = strings.TrimSpace(it.text)
			case "check-overflow":
				cur.Overflow = true
			case "assume-note":
				cur.Unchecked = append(cur.Unchecked, it.text)
			case "option":
				kv := strings.SplitN(it.text, "=", 2)
				if len(kv) == 2 {
					cur.Options[strings.TrimSpace(kv[0])] = strings.TrimSpace(kv[1])
				} else {
					cur.Options[strings.TrimSpace(it.text)] = "true"
				}
			}
		}
	}
	return cf, nil
}

// splitTop splits on commas that are not nested in brackets.
func splitTop(s string) []string {
	var out []string
	depth := 0
	start := 0
	for i, c := range s {
		switch c {
		case '(', '[':
			depth++
		case ')', ']':
			depth--
		case ',':
			if depth == 0 {
				out = append(out, strings.TrimSpace(s[start:i]))
				start = i + 1
			}
		}
	}
	out = append(out, strings.TrimSpace(s[start:]))
	return out
}

// parsePred parses `name(p1 T1, p2 T2) [ret] = expr`.
func parsePred(s string, isPred bool) (*PredSpec, error) {
	lp := strings.Index(s, "(")
	if lp < 0 {
		return nil, fmt.Errorf("bad pred header %q", s)
	}
	name := strings.TrimSpace(s[:lp])
	depth := 0
	rp := -1
	for i := lp; i < len(s); i++ {
		if s[i] == '(' {
			depth++
		} else if s[i] == ')' {
			depth--
			if depth == 0 {
				rp = i
				break
			}
		}
	}
	if rp < 0 {
		return nil, fmt.Errorf("bad pred header %q", s)
	}
	rest := s[rp+1:]
	eq := strings.Index(rest, "=")
	if eq < 0 {
		return nil, fmt.Errorf("pred %s has no body", name)
	}
	ret := strings.TrimSpace(rest[:eq])
	var decreases Expr
	if i := strings.Index(ret, "decreases "); i >= 0 {
		d, err := ParseExpr(strings.TrimSpace(ret[i+len("decreases "):]))
		if err != nil {
			return nil, err
		}
		decreases = d
		ret = strings.TrimSpace(ret[:i])
	}
	if isPred || ret == "" {
		ret = "bool"
	}
	bodyText := strings.TrimSpace(rest[eq+1:])
	body, err := ParseExpr(bodyText)
	if err != nil {
		return nil, err
	}
	ps := &PredSpec{Name: name, Ret: ret, Body: body, Text: bodyText, Decreases: decreases}
	ps.Rec = regexp.MustCompile(`(^|[^A-Za-z0-9_])` + regexp.QuoteMeta(name) + `\(`).MatchString(bodyText)
	plist := strings.TrimSpace(s[lp+1 : rp])
	if plist != "" {
		var pending []string
		for _, p := range splitTop(plist) {
			f := strings.Fields(p)
			if len(f) == 1 {
				pending = append(pending, f[0])
				continue
			}
			typ := strings.Join(f[1:], " ")
			for _, n := range pending {
				ps.Params = append(ps.Params, Param{n, typ})
			}
			pending = nil
			ps.Params = append(ps.Params, Param{f[0], typ})
		}
		if len(pending) > 0 {
			return nil, fmt.Errorf("pred %s: parameter without type", name)
		}
	}
	return ps, nil
}
