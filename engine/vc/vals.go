package vc

import (
	"fmt"
	"go/types"
	"math/big"
	"strings"

	"golang.org/x/tools/go/ssa"
)

// Val is a symbolic Go value: a tree whose leaves are SMT terms.
type Val interface{}

type (
	// Sc is a scalar: bool, integer, reference-like (map, interface, func, chan) or an array of scalars.
	Sc struct {
		T   T
		Typ types.Type
	}
	SliceV struct {
		Base, Off, Len, Cap T
		Typ                 types.Type // the slice type
	}
	StrV struct {
		Base, Off, Len T
	}
	StructV struct {
		F   []Val
		Typ types.Type
	}
	TupleV struct{ V []Val }
	FuncV  struct {
		Fn   *ssa.Function
		Bind []Val
	}
)

type ptrKind int

const (
	pkNil  ptrKind = iota
	pkCell         // pointer into a local cell
	pkHeap         // pointer to (part of) a heap object identified by Ref
	pkElem         // pointer to (part of) a slice/array element
)

type Step struct {
	Field int // >=0: struct field index
	Idx   *T  // non-nil: array index
}

// PtrV is an engine-level pointer.
type PtrV struct {
	Kind ptrKind
	Cell *Cell
	Ref  T          // pkHeap: object reference (Int)
	Base T          // pkElem: backing array reference
	Idx  T          // pkElem: absolute index into the backing array
	Root types.Type // type of the object at Ref / of the element / of the cell
	Path []Step
	Typ  types.Type // pointer type
}

// Cell is a local variable (an ssa.Alloc executed once per path).
type Cell struct {
	Alloc *ssa.Alloc
	Name  string
	Typ   types.Type
	ID    int
}

func under(t types.Type) types.Type { return t.Underlying() }

func typeKey(t types.Type) string {
	s := types.TypeString(t, func(p *types.Package) string { return p.Name() })
	r := strings.NewReplacer("*", "ptr_", "[]", "sl_", "[", "arr", "]", "_", " ", "", "{", "_", "}", "_", ";", "_", ".", "_", "(", "_", ")", "_", ",", "_", "/", "_")
	return r.Replace(s)
}

// ---- sorts ----

func (fx *FuncVC) intSortOf(t types.Type) Sort {
	if !fx.bv {
		return SInt
	}
	return SBV(intWidth(t))
}

func (fx *FuncVC) idxSort() Sort {
	if fx.bv {
		return SBV(64)
	}
	return SInt
}

func intWidth(t types.Type) int {
	b, ok := under(t).(*types.Basic)
	if !ok {
		return 64
	}
	switch b.Kind() {
	case types.Int8, types.Uint8:
		return 8
	case types.Int16, types.Uint16:
		return 16
	case types.Int32, types.Uint32:
		return 32
	}
	return 64
}

func isUnsigned(t types.Type) bool {
	b, ok := under(t).(*types.Basic)
	return ok && b.Info()&types.IsUnsigned != 0
}

func isInteger(t types.Type) bool {
	b, ok := under(t).(*types.Basic)
	return ok && b.Info()&types.IsInteger != 0
}

func isBoolean(t types.Type) bool {
	b, ok := under(t).(*types.Basic)
	return ok && b.Info()&types.IsBoolean != 0
}

func isString(t types.Type) bool {
	b, ok := under(t).(*types.Basic)
	return ok && b.Info()&types.IsString != 0
}

// sized reports whether integer type t has a range constraint in int mode.
func sizedRange(t types.Type) (lo, hi *big.Int, ok bool) {
	b, isb := under(t).(*types.Basic)
	if !isb || b.Info()&types.IsInteger == 0 {
		return nil, nil, false
	}
	w := intWidth(t)
	switch b.Kind() {
	case types.Int, types.Int64, types.UntypedInt, types.UntypedRune:
		return nil, nil, false
	}
	if isUnsigned(t) {
		return big.NewInt(0), new(big.Int).Sub(pow2(uint(w)), big.NewInt(1)), true
	}
	return new(big.Int).Neg(pow2(uint(w - 1))), new(big.Int).Sub(pow2(uint(w-1)), big.NewInt(1)), true
}

// Leaf describes one scalar component of a flattened type.
type Leaf struct {
	Path string
	Sort Sort
	Typ  types.Type // Go type of the leaf when it is an integer/bool; nil for synthetic parts
}

func (fx *FuncVC) scalarSort(t types.Type) (Sort, bool) {
	switch u := under(t).(type) {
	case *types.Basic:
		switch {
		case u.Info()&types.IsBoolean != 0:
			return SBool, true
		case u.Info()&types.IsInteger != 0:
			return fx.intSortOf(t), true
		case u.Kind() == types.UnsafePointer:
			return SInt, true
		case u.Info()&types.IsFloat != 0:
			return Sort("Real"), true
		}
	case *types.Pointer, *types.Map, *types.Interface, *types.Signature, *types.Chan:
		return SInt, true
	case *types.Array:
		if es, ok := fx.scalarSort(u.Elem()); ok {
			return SArr(fx.idxSort(), es), true
		}
	}
	return "", false
}

func (fx *FuncVC) leavesOf(t types.Type) []Leaf {
	if s, ok := fx.scalarSort(t); ok {
		return []Leaf{{"", s, t}}
	}
	switch u := under(t).(type) {
	case *types.Basic:
		if u.Info()&types.IsString != 0 {
			return []Leaf{{"$sb", SInt, nil}, {"$so", fx.idxSort(), nil}, {"$sl", fx.idxSort(), nil}}
		}
	case *types.Slice:
		return []Leaf{{"$b", SInt, nil}, {"$o", fx.idxSort(), nil}, {"$l", fx.idxSort(), nil}, {"$c", fx.idxSort(), nil}}
	case *types.Struct:
		var out []Leaf
		for i := 0; i < u.NumFields(); i++ {
			for _, l := range fx.leavesOf(u.Field(i).Type()) {
				out = append(out, Leaf{"." + u.Field(i).Name() + l.Path, l.Sort, l.Typ})
			}
		}
		return out
	case *types.Tuple:
		var out []Leaf
		for i := 0; i < u.Len(); i++ {
			for _, l := range fx.leavesOf(u.At(i).Type()) {
				out = append(out, Leaf{fmt.Sprintf("#%d%s", i, l.Path), l.Sort, l.Typ})
			}
		}
		return out
	}
	panic(unsupported("type %s", t))
}

type unsupportedErr string

func unsupported(f string, a ...interface{}) unsupportedErr {
	return unsupportedErr(fmt.Sprintf(f, a...))
}

// flat returns the leaves of a value in leavesOf order.
func flat(v Val) []T {
	switch v := v.(type) {
	case Sc:
		return []T{v.T}
	case SliceV:
		return []T{v.Base, v.Off, v.Len, v.Cap}
	case StrV:
		return []T{v.Base, v.Off, v.Len}
	case StructV:
		var out []T
		for _, f := range v.F {
			out = append(out, flat(f)...)
		}
		return out
	case TupleV:
		var out []T
		for _, f := range v.V {
			out = append(out, flat(f)...)
		}
		return out
	case PtrV:
		return []T{ptrRef(v)}
	case FuncV:
		panic(unsupported("closure value stored in memory"))
	}
	panic(fmt.Sprintf("flat: %T", v))
}

func ptrRef(p PtrV) T {
	switch p.Kind {
	case pkNil:
		return IntC(0)
	case pkHeap:
		if len(p.Path) == 0 {
			return p.Ref
		}
	}
	panic(unsupported("pointer into the middle of an object (or to a local) used as a value"))
}

// build reconstructs a value of type t from leaves.
func (fx *FuncVC) build(t types.Type, ls []T) Val {
	v, rest := fx.build1(t, ls)
	if len(rest) != 0 {
		panic("build: leftover leaves")
	}
	return v
}

func (fx *FuncVC) build1(t types.Type, ls []T) (Val, []T) {
	if _, ok := fx.scalarSort(t); ok {
		if p, isPtr := under(t).(*types.Pointer); isPtr {
			return PtrV{Kind: pkHeap, Ref: ls[0], Root: p.Elem(), Typ: t}, ls[1:]
		}
		return Sc{ls[0], t}, ls[1:]
	}
	switch u := under(t).(type) {
	case *types.Basic:
		return StrV{ls[0], ls[1], ls[2]}, ls[3:]
	case *types.Slice:
		return SliceV{ls[0], ls[1], ls[2], ls[3], t}, ls[4:]
	case *types.Struct:
		sv := StructV{Typ: t}
		for i := 0; i < u.NumFields(); i++ {
			var f Val
			f, ls = fx.build1(u.Field(i).Type(), ls)
			sv.F = append(sv.F, f)
		}
		return sv, ls
	case *types.Tuple:
		tv := TupleV{}
		for i := 0; i < u.Len(); i++ {
			var f Val
			f, ls = fx.build1(u.At(i).Type(), ls)
			tv.V = append(tv.V, f)
		}
		return tv, ls
	}
	panic(unsupported("build type %s", t))
}

func (fx *FuncVC) zeroOfSort(s Sort) T {
	switch {
	case s == SInt:
		return IntC(0)
	case s == SBool:
		return False
	case s.IsBV():
		return BVC(big.NewInt(0), s.Width())
	case s.IsArr():
		_, es := s.ArrParts()
		return ConstArr(s, fx.zeroOfSort(es))
	case s == "Real":
		return T{"0.0", s}
	}
	panic("zeroOfSort " + string(s))
}

func (fx *FuncVC) zeroVal(t types.Type) Val {
	var ls []T
	for _, l := range fx.leavesOf(t) {
		ls = append(ls, fx.zeroOfSort(l.Sort))
	}
	v := fx.build(t, ls)
	return v
}

// freshVal declares fresh constants for every leaf of t and assumes type range facts.
func (fx *FuncVC) freshVal(t types.Type, hint string) Val {
	var ls []T
	for _, l := range fx.leavesOf(t) {
		c := fx.fresh(hint+sanitize(l.Path), l.Sort)
		ls = append(ls, c)
		if l.Typ != nil {
			if f, ok := fx.rangeFact(c, l.Typ); ok {
				fx.assume(f)
			}
		}
	}
	v := fx.build(t, ls)
	fx.assumeWF(v)
	return v
}

func sanitize(s string) string {
	r := strings.NewReplacer(".", "_", "$", "", "#", "_", " ", "_", "*", "p", "[", "_", "]", "_", "/", "_", "(", "_", ")", "_", ",", "_", "@", "at", "{", "_", "}", "_", ";", "_")
	return r.Replace(s)
}

func (fx *FuncVC) rangeFact(t T, typ types.Type) (T, bool) {
	if fx.bv || t.Sort != SInt {
		return T{}, false
	}
	lo, hi, ok := sizedRange(typ)
	if !ok {
		return T{}, false
	}
	return And(Le(IntBig(lo), t, true), Le(t, IntBig(hi), true)), true
}

// assumeWF assumes structural well-formedness of slices/strings inside v.
func (fx *FuncVC) assumeWF(v Val) {
	z := fx.idx(0)
	switch v := v.(type) {
	case SliceV:
		fx.assume(And(Le(z, v.Off, true), Le(z, v.Len, true), Le(v.Len, v.Cap, true), Le(IntC(0), v.Base, true), Lt(v.Base, fx.st.alloc, true)))
		// nil slice: base 0 has cap 0
		fx.assume(Implies(Eq(v.Base, IntC(0)), Eq(v.Cap, z)))
		if fx.bv {
			// machine arithmetic: offsets and capacities are far below 2^62, so off+cap does not wrap
			lim := fx.idx(1 << 40)
			fx.assume(And(Le(v.Off, lim, true), Le(v.Cap, lim, true)))
			fx.note("mode bv: slice offsets and capacities are assumed to be at most 2^40 (index arithmetic on them does not wrap)")
		}
	case StrV:
		fx.assume(And(Le(z, v.Off, true), Le(z, v.Len, true), Le(IntC(0), v.Base, true)))
		if fx.bv {
			lim := fx.idx(1 << 40)
			fx.assume(And(Le(v.Off, lim, true), Le(v.Len, lim, true)))
		}
	case StructV:
		for _, f := range v.F {
			fx.assumeWF(f)
		}
	case TupleV:
		for _, f := range v.V {
			fx.assumeWF(f)
		}
	case PtrV:
		if v.Kind == pkHeap {
			fx.assume(And(Le(IntC(0), v.Ref, true), Lt(v.Ref, fx.st.alloc, true)))
		}
	}
}

func (fx *FuncVC) idx(v int64) T {
	if fx.bv {
		return BVC(big.NewInt(v), 64)
	}
	return IntC(v)
}

// iteVal merges two values of the same shape.
func (fx *FuncVC) iteVal(c T, a, b Val) Val {
	switch a := a.(type) {
	case Sc:
		return Sc{Ite(c, a.T, b.(Sc).T), a.Typ}
	case SliceV:
		bb := b.(SliceV)
		return SliceV{Ite(c, a.Base, bb.Base), Ite(c, a.Off, bb.Off), Ite(c, a.Len, bb.Len), Ite(c, a.Cap, bb.Cap), a.Typ}
	case StrV:
		bb := b.(StrV)
		return StrV{Ite(c, a.Base, bb.Base), Ite(c, a.Off, bb.Off), Ite(c, a.Len, bb.Len)}
	case StructV:
		bb := b.(StructV)
		out := StructV{Typ: a.Typ}
		for i := range a.F {
			out.F = append(out.F, fx.iteVal(c, a.F[i], bb.F[i]))
		}
		return out
	case TupleV:
		bb := b.(TupleV)
		out := TupleV{}
		for i := range a.V {
			out.V = append(out.V, fx.iteVal(c, a.V[i], bb.V[i]))
		}
		return out
	case PtrV:
		bb := b.(PtrV)
		if ptrSame(a, bb) {
			return a
		}
		if (a.Kind == pkHeap || a.Kind == pkNil) && (bb.Kind == pkHeap || bb.Kind == pkNil) && len(a.Path) == 0 && len(bb.Path) == 0 {
			root := a.Root
			if root == nil {
				root = bb.Root
			}
			return PtrV{Kind: pkHeap, Ref: Ite(c, ptrRef(a), ptrRef(bb)), Root: root, Typ: a.Typ}
		}
		if a.Kind == pkElem && bb.Kind == pkElem && len(a.Path) == 0 && len(bb.Path) == 0 {
			return PtrV{Kind: pkElem, Base: Ite(c, a.Base, bb.Base), Idx: Ite(c, a.Idx, bb.Idx), Root: a.Root, Typ: a.Typ}
		}
		panic(unsupported("merge of distinct local pointers"))
	case FuncV:
		bb := b.(FuncV)
		if a.Fn == bb.Fn {
			return a
		}
		panic(unsupported("merge of distinct closures"))
	case nil:
		return nil
	}
	panic(fmt.Sprintf("iteVal %T", a))
}

func ptrSame(a, b PtrV) bool {
	if a.Kind != b.Kind || a.Cell != b.Cell || a.Ref.S != b.Ref.S || a.Base.S != b.Base.S || a.Idx.S != b.Idx.S || len(a.Path) != len(b.Path) {
		return false
	}
	for i := range a.Path {
		if a.Path[i].Field != b.Path[i].Field {
			return false
		}
		if (a.Path[i].Idx == nil) != (b.Path[i].Idx == nil) {
			return false
		}
		if a.Path[i].Idx != nil && a.Path[i].Idx.S != b.Path[i].Idx.S {
			return false
		}
	}
	return true
}

func valSame(a, b Val) bool {
	switch a := a.(type) {
	case PtrV:
		bb, ok := b.(PtrV)
		return ok && ptrSame(a, bb)
	case FuncV:
		bb, ok := b.(FuncV)
		return ok && a.Fn == bb.Fn
	case nil:
		return b == nil
	}
	if b == nil {
		return false
	}
	if _, ok := b.(PtrV); ok {
		return false
	}
	if _, ok := b.(FuncV); ok {
		return false
	}
	fa, fb := flat(a), flat(b)
	if len(fa) != len(fb) {
		return false
	}
	for i := range fa {
		if fa[i].S != fb[i].S {
			return false
		}
	}
	return true
}

// eqVal is structural equality of two values (leafwise).
func (fx *FuncVC) eqVal(a, b Val) T {
	if sa, ok := a.(StrV); ok {
		return fx.strEq(sa, b.(StrV))
	}
	fa, fb := flat(a), flat(b)
	var cs []T
	for i := range fa {
		cs = append(cs, Eq(fa[i], fb[i]))
	}
	return And(cs...)
}

// navigate walks a value along a path.
func (fx *FuncVC) navigate(v Val, path []Step) Val {
	for _, s := range path {
		if s.Idx != nil {
			sc := v.(Sc)
			arr := under(sc.Typ).(*types.Array)
			v = Sc{Select(sc.T, *s.Idx), arr.Elem()}
			continue
		}
		v = v.(StructV).F[s.Field]
	}
	return v
}

// update returns v with the component at path replaced by nv.
func (fx *FuncVC) update(v Val, path []Step, nv Val) Val {
	if len(path) == 0 {
		return nv
	}
	s := path[0]
	if s.Idx != nil {
		sc := v.(Sc)
		arr := under(sc.Typ).(*types.Array)
		old := Sc{Select(sc.T, *s.Idx), arr.Elem()}
		inner := fx.update(old, path[1:], nv).(Sc)
		return Sc{Store(sc.T, *s.Idx, inner.T), sc.Typ}
	}
	sv := v.(StructV)
	out := StructV{Typ: sv.Typ, F: append([]Val(nil), sv.F...)}
	out.F[s.Field] = fx.update(sv.F[s.Field], path[1:], nv)
	return out
}

// typeAt returns the type reached from root by path.
func typeAt(root types.Type, path []Step) types.Type {
	t := root
	for _, s := range path {
		if s.Idx != nil {
			t = under(t).(*types.Array).Elem()
		} else {
			t = under(t).(*types.Struct).Field(s.Field).Type()
		}
	}
	return t
}

// leafPathPrefix returns the leaf-path string for a struct path (array steps excluded).
func leafPathPrefix(root types.Type, path []Step) (string, []T) {
	t := root
	var sb strings.Builder
	var idxs []T
	for _, s := range path {
		if s.Idx != nil {
			idxs = append(idxs, *s.Idx)
			t = under(t).(*types.Array).Elem()
			continue
		}
		f := under(t).(*types.Struct).Field(s.Field)
		sb.WriteString("." + f.Name())
		t = f.Type()
	}
	return sb.String(), idxs
}
