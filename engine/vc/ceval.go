package vc

// Evaluation of contract expressions to SMT terms.

import (
	"fmt"
	"go/constant"
	"go/types"
	"math/big"
	"strings"

	"golang.org/x/tools/go/ssa"
)

type NilV struct{}

type Env struct {
	fx      *FuncVC
	st      *State
	vars    map[string]Val
	lookup  func(name string) (Val, bool)
	old     *Env
	pkg     *PkgInfo // package whose contract file the expression comes from
	bound   map[string]bool
	pats    *[]string
	depth   int
	recOf   string
	guard   T  // inside the definition of a recursive spec function: condition of the enclosing ?: branches
	recFuel *T // inside the definition of a recursive spec function: the fuel variable
}

func (e *Env) child() *Env {
	n := *e
	n.vars = map[string]Val{}
	for k, v := range e.vars {
		n.vars[k] = v
	}
	return &n
}

type contractErr string

func cfail(f string, a ...interface{}) { panic(contractErr(fmt.Sprintf(f, a...))) }

func (e *Env) boolT(x Expr) T {
	v := e.eval(x)
	sc, ok := v.(Sc)
	if !ok || sc.T.Sort != SBool {
		cfail("expression %s is not boolean", ExprString(x))
	}
	return sc.T
}

func (e *Env) intT(x Expr) T {
	v := e.eval(x)
	sc, ok := v.(Sc)
	if !ok || sc.T.Sort == SBool {
		cfail("expression %s is not an integer", ExprString(x))
	}
	return sc.T
}

// idxT evaluates an integer expression to the index sort.
func (e *Env) idxT(x Expr) T {
	v := e.eval(x).(Sc)
	return e.toIdx(v)
}

func (e *Env) toIdx(v Sc) T {
	fx := e.fx
	if !fx.bv {
		return v.T
	}
	if v.T.Sort == SInt {
		n, ok := isIntLit(v.T)
		if !ok {
			cfail("non-literal Int in bv mode")
		}
		return BVC(bigInt(n), 64)
	}
	return fx.toIdx(v.T, v.Typ)
}

func (e *Env) eval(x Expr) Val {
	fx := e.fx
	switch x := x.(type) {
	case *IntLit:
		b, ok := new(big.Int).SetString(x.Val, 10)
		if !ok {
			cfail("bad int literal %s", x.Val)
		}
		return Sc{IntBig(b), nil}
	case *BoolLit:
		if x.Val {
			return Sc{True, types.Typ[types.Bool]}
		}
		return Sc{False, types.Typ[types.Bool]}
	case *StrLit:
		return fx.strConst(x.Val)
	case *Ident:
		return e.ident(x.Name)
	case *OldE:
		if e.old == nil {
			cfail("old() is not available here")
		}
		o := *e.old
		o.bound, o.pats, o.depth = e.bound, e.pats, e.depth
		// bound variables and lets stay visible inside old()
		o.vars = map[string]Val{}
		for k, v := range e.old.vars {
			o.vars[k] = v
		}
		for k, v := range e.vars {
			if strings.HasPrefix(k, "$q:") {
				o.vars[k[3:]] = v
				o.vars[k] = v
			}
		}
		// local variables keep their current values inside old() (only the heap and the
		// parameters are those of the entry state)
		if o.lookup == nil {
			cur := e
			o.lookup = func(name string) (Val, bool) {
				if v, ok := cur.vars[name]; ok {
					return v, true
				}
				if cur.lookup != nil {
					return cur.lookup(name)
				}
				return nil, false
			}
		}
		return o.eval(x.X)
	case *Unary:
		switch x.Op {
		case "!":
			return Sc{Not(e.boolT(x.X)), types.Typ[types.Bool]}
		case "-":
			v := e.eval(x.X).(Sc)
			return Sc{Neg(v.T), v.Typ}
		case "*":
			p, ok := e.eval(x.X).(PtrV)
			if !ok {
				cfail("* applied to a non-pointer %s", ExprString(x.X))
			}
			return fx.loadPtr(e.st, p)
		case "^":
			v := e.eval(x.X).(Sc)
			if v.T.Sort.IsBV() {
				return Sc{app("bvnot", v.T.Sort, v.T), v.Typ}
			}
			return Sc{Sub(Neg(v.T), IntC(1)), v.Typ}
		}
	case *Binary:
		return e.binary(x)
	case *CondE:
		c := e.boolT(x.C)
		ea, eb := e, e
		if e.recFuel != nil {
			g := e.guard
			if g.S == "" {
				g = True
			}
			ea, eb = e.child(), e.child()
			ea.guard, eb.guard = And(g, c), And(g, Not(c))
		}
		a, b := ea.eval(x.A), eb.eval(x.B)
		a, b = e.unify(a, b)
		return fx.iteVal(c, a, b)
	case *LetE:
		n := e.child()
		n.vars[x.Var] = e.eval(x.Val)
		return n.eval(x.Body)
	case *IndexE:
		return e.index(x)
	case *SliceE:
		return e.slice(x)
	case *FieldE:
		return e.field(x)
	case *CallE:
		return e.call(x)
	case *Quant:
		return e.quant(x)
	}
	cfail("cannot evaluate %s", ExprString(x))
	return nil
}

func (e *Env) ident(name string) Val {
	if v, ok := e.vars[name]; ok {
		return v
	}
	if e.lookup != nil {
		if v, ok := e.lookup(name); ok {
			return v
		}
	}
	switch name {
	case "nil":
		return NilV{}
	}
	// package-level constant
	if e.pkg != nil {
		if obj := e.pkg.Types.Scope().Lookup(name); obj != nil {
			if c, ok := obj.(*types.Const); ok {
				return e.constVal(c)
			}
		}
		// package-level variable (constant tables): its value in the environment's state
		if e.pkg.SSA != nil {
			if g, ok := e.pkg.SSA.Members[name].(*ssa.Global); ok {
				return e.fx.loadPtr(e.st, e.fx.globalPtr(g))
			}
		}
	}
	cfail("unknown identifier %q", name)
	return nil
}

func (e *Env) constVal(c *types.Const) Val {
	switch {
	case isBoolean(c.Type()):
		if constant.BoolVal(c.Val()) {
			return Sc{True, c.Type()}
		}
		return Sc{False, c.Type()}
	case isInteger(c.Type()):
		bi, ok := constant.Val(constant.ToInt(c.Val())).(*big.Int)
		if !ok {
			i64, _ := constant.Int64Val(constant.ToInt(c.Val()))
			bi = big.NewInt(i64)
		}
		return Sc{IntBig(bi), nil}
	case isString(c.Type()):
		return e.fx.strConst(constant.StringVal(c.Val()))
	}
	cfail("constant %s has unsupported type", c.Name())
	return nil
}

// unify makes two scalar operands agree on sort (literals adopt the other side's sort).
func (e *Env) unify(a, b Val) (Val, Val) {
	// nil next to a pointer: the nil pointer of that type
	if _, isNil := a.(NilV); isNil {
		if pb, ok := b.(PtrV); ok {
			return PtrV{Kind: pkHeap, Ref: IntC(0), Root: pb.Root, Typ: pb.Typ}, b
		}
	}
	if _, isNil := b.(NilV); isNil {
		if pa, ok := a.(PtrV); ok {
			return a, PtrV{Kind: pkHeap, Ref: IntC(0), Root: pa.Root, Typ: pa.Typ}
		}
	}
	as, okA := a.(Sc)
	bs, okB := b.(Sc)
	if !okA || !okB || as.T.Sort == bs.T.Sort {
		return a, b
	}
	lit := func(s Sc, to Sc) Sc {
		n, ok := new(big.Int).SetString(strings.Trim(strings.ReplaceAll(strings.ReplaceAll(s.T.S, "(- ", "-"), ")", ""), " "), 10)
		if !ok {
			cfail("cannot mix Int and BitVec terms (%s vs %s)", s.T.S, to.T.S)
		}
		return Sc{BVC(n, to.T.Sort.Width()), to.Typ}
	}
	if as.T.Sort == SInt && bs.T.Sort.IsBV() {
		return lit(as, bs), bs
	}
	if bs.T.Sort == SInt && as.T.Sort.IsBV() {
		return as, lit(bs, as)
	}
	if as.T.Sort.IsBV() && bs.T.Sort.IsBV() {
		wa, wb := as.T.Sort.Width(), bs.T.Sort.Width()
		ext := func(s Sc, w int) Sc {
			d := w - s.T.Sort.Width()
			op := "sign_extend"
			if s.Typ != nil && isUnsigned(s.Typ) {
				op = "zero_extend"
			}
			return Sc{T{fmt.Sprintf("((_ %s %d) %s)", op, d, s.T.S), SBV(w)}, types.Typ[types.Int]}
		}
		if wa < wb {
			return ext(as, wb), bs
		}
		return as, ext(bs, wa)
	}
	cfail("sort mismatch %s vs %s", as.T.Sort, bs.T.Sort)
	return a, b
}

func (e *Env) binary(x *Binary) Val {
	fx := e.fx
	boolTyp := types.Typ[types.Bool]
	switch x.Op {
	case "&&":
		return Sc{And(e.boolT(x.X), e.boolT(x.Y)), boolTyp}
	case "||":
		return Sc{Or(e.boolT(x.X), e.boolT(x.Y)), boolTyp}
	case "==>":
		return Sc{Implies(e.boolT(x.X), e.boolT(x.Y)), boolTyp}
	case "<==>":
		return Sc{Eq(e.boolT(x.X), e.boolT(x.Y)), boolTyp}
	case "==", "!=":
		a, b := e.eval(x.X), e.eval(x.Y)
		var r T
		if _, isNil := b.(NilV); isNil {
			r = e.isNil(a)
		} else if _, isNil := a.(NilV); isNil {
			r = e.isNil(b)
		} else {
			a, b = e.unify(a, b)
			if pa, ok := a.(PtrV); ok {
				r = Eq(ptrRefLoose(pa), ptrRefLoose(b.(PtrV)))
			} else {
				r = fx.eqVal(a, b)
			}
		}
		if x.Op == "!=" {
			r = Not(r)
		}
		return Sc{r, boolTyp}
	}
	a, b := e.unify(e.eval(x.X), e.eval(x.Y))
	as, okA := a.(Sc)
	bs, okB := b.(Sc)
	if !okA || !okB {
		cfail("operator %s on non-scalar operands in %s", x.Op, ExprString(x))
	}
	typ := as.Typ
	if typ == nil {
		typ = bs.Typ
	}
	signed := !(as.Typ != nil && isUnsigned(as.Typ)) || !(bs.Typ != nil && isUnsigned(bs.Typ))
	if as.Typ != nil && bs.Typ != nil {
		signed = !isUnsigned(as.Typ)
	} else if as.Typ != nil {
		signed = !isUnsigned(as.Typ)
	} else if bs.Typ != nil {
		signed = !isUnsigned(bs.Typ)
	}
	p, q := as.T, bs.T
	switch x.Op {
	case "<":
		return Sc{Lt(p, q, signed), boolTyp}
	case "<=":
		return Sc{Le(p, q, signed), boolTyp}
	case ">":
		return Sc{Lt(q, p, signed), boolTyp}
	case ">=":
		return Sc{Le(q, p, signed), boolTyp}
	case "+":
		return Sc{Add(p, q), typ}
	case "-":
		return Sc{Sub(p, q), typ}
	case "*":
		return Sc{Mul(p, q), typ}
	}
	if p.Sort.IsBV() {
		var op string
		switch x.Op {
		case "/":
			op = "bvudiv"
			if signed {
				op = "bvsdiv"
			}
		case "%":
			op = "bvurem"
			if signed {
				op = "bvsrem"
			}
		case "&":
			op = "bvand"
		case "|":
			op = "bvor"
		case "^":
			op = "bvxor"
		case "<<":
			op = "bvshl"
		case ">>":
			op = "bvlshr"
			if signed {
				op = "bvashr"
			}
		case "&^":
			return Sc{app("bvand", p.Sort, p, app("bvnot", q.Sort, q)), typ}
		}
		if op == "" {
			cfail("operator %s not supported in bv mode", x.Op)
		}
		return Sc{app(op, p.Sort, p, q), typ}
	}
	switch x.Op {
	case "/":
		// contract division is Euclidean on non-negative operands (Go-compatible there)
		if v, ok := isIntLit(q); ok && v > 0 {
			return Sc{Ite(Le(IntC(0), p, true), app("div", SInt, p, q), Neg(app("div", SInt, Neg(p), q))), typ}
		}
		return Sc{truncDivInt(p, q), typ}
	case "%":
		if v, ok := isIntLit(q); ok && v > 0 {
			return Sc{Ite(Le(IntC(0), p, true), app("mod", SInt, p, q), Neg(app("mod", SInt, Neg(p), q))), typ}
		}
		return Sc{truncRemInt(p, q), typ}
	case "<<":
		if c, ok := isIntLit(q); ok && c >= 0 && c < 63 {
			return Sc{Mul(p, IntBig(pow2(uint(c)))), typ}
		}
	case ">>":
		if c, ok := isIntLit(q); ok && c >= 0 && c < 63 {
			return Sc{app("div", SInt, p, IntBig(pow2(uint(c)))), typ}
		}
	case "&":
		if c, ok := isIntLit(q); ok && isMask(c) {
			return Sc{app("mod", SInt, p, IntC(c+1)), typ}
		}
	}
	cfail("operator %s not supported in mode int in %s", x.Op, ExprString(x))
	return nil
}

func (e *Env) isNil(v Val) T {
	switch v := v.(type) {
	case PtrV:
		if v.Kind == pkCell || v.Kind == pkElem || (v.Kind == pkHeap && len(v.Path) > 0) {
			return False // a pointer to a local, to an element or into an object is never nil
		}
		return Eq(ptrRefLoose(v), IntC(0))
	case SliceV:
		return Eq(v.Base, IntC(0))
	case Sc:
		return Eq(v.T, IntC(0))
	case NilV:
		return True
	}
	cfail("nil comparison on %T", v)
	return T{}
}

func (e *Env) index(x *IndexE) Val {
	fx := e.fx
	base := e.eval(x.X)
	if p, ok := base.(PtrV); ok {
		base = fx.loadPtr(e.st, p) // auto-deref pointer to slice/array
	}
	if sc, ok := base.(Sc); ok && sc.Typ != nil {
		if mt, isMap := under(sc.Typ).(*types.Map); isMap {
			v, _ := e.mapGet(sc, mt, x.I)
			return v
		}
	}
	i := e.idxT(x.I)
	switch b := base.(type) {
	case SliceV:
		elem := under(b.Typ).(*types.Slice).Elem()
		p := PtrV{Kind: pkElem, Base: b.Base, Idx: Add(b.Off, i), Root: elem}
		v := fx.loadPtr(e.st, p)
		e.notePattern(v, p.Idx)
		return v
	case StrV:
		idx := Add(b.Off, i)
		t := Select(Select(fx.strHeap(), b.Base), idx)
		if e.pats != nil && e.bound[idx.S] {
			*e.pats = append(*e.pats, t.S)
		}
		return Sc{t, types.Typ[types.Uint8]}
	case Sc:
		if a, ok := under(b.Typ).(*types.Array); ok {
			return Sc{Select(b.T, i), a.Elem()}
		}
	}
	cfail("cannot index %s", ExprString(x.X))
	return nil
}

func (e *Env) notePattern(v Val, idx T) {
	if e.pats == nil || !e.bound[idx.S] {
		return
	}
	ls := flat(v)
	if len(ls) > 0 && strings.HasPrefix(ls[0].S, "(select ") {
		*e.pats = append(*e.pats, ls[0].S)
	}
}

func (e *Env) slice(x *SliceE) Val {
	fx := e.fx
	base := e.eval(x.X)
	if p, ok := base.(PtrV); ok {
		base = fx.loadPtr(e.st, p)
	}
	lo := fx.idx(0)
	if x.Lo != nil {
		lo = e.idxT(x.Lo)
	}
	switch b := base.(type) {
	case SliceV:
		hi := b.Len
		if x.Hi != nil {
			hi = e.idxT(x.Hi)
		}
		return SliceV{b.Base, Add(b.Off, lo), Sub(hi, lo), Sub(b.Cap, lo), b.Typ}
	case StrV:
		hi := b.Len
		if x.Hi != nil {
			hi = e.idxT(x.Hi)
		}
		return StrV{b.Base, Add(b.Off, lo), Sub(hi, lo)}
	}
	cfail("cannot slice %s", ExprString(x.X))
	return nil
}

func fieldIndex(t types.Type, name string) ([]int, bool) {
	st, ok := under(t).(*types.Struct)
	if !ok {
		return nil, false
	}
	for i := 0; i < st.NumFields(); i++ {
		if st.Field(i).Name() == name {
			return []int{i}, true
		}
	}
	for i := 0; i < st.NumFields(); i++ {
		if st.Field(i).Embedded() {
			ft := st.Field(i).Type()
			if p, isPtr := under(ft).(*types.Pointer); isPtr {
				_ = p
				continue
			}
			if sub, ok := fieldIndex(ft, name); ok {
				return append([]int{i}, sub...), true
			}
		}
	}
	return nil, false
}

func (e *Env) field(x *FieldE) Val {
	fx := e.fx
	// package-qualified constant: pkg.Name
	if id, ok := x.X.(*Ident); ok {
		if _, isVar := e.vars[id.Name]; !isVar {
			if e.lookup != nil {
				if _, isCell := e.lookup(id.Name); isCell {
					goto normal
				}
			}
			if e.pkg != nil {
				for _, imp := range e.pkg.Types.Imports() {
					if imp.Name() == id.Name {
						if obj := imp.Scope().Lookup(x.Name); obj != nil {
							if c, ok := obj.(*types.Const); ok {
								return e.constVal(c)
							}
						}
					}
				}
			}
		}
	}
normal:
	base := e.eval(x.X)
	switch b := base.(type) {
	case StructV:
		path, ok := fieldIndex(b.Typ, x.Name)
		if !ok {
			cfail("no field %s in %s", x.Name, b.Typ)
		}
		var v Val = b
		for _, i := range path {
			v = v.(StructV).F[i]
		}
		return v
	case PtrV:
		t := typeAt(b.Root, b.Path)
		path, ok := fieldIndex(t, x.Name)
		if !ok {
			cfail("no field %s in %s", x.Name, t)
		}
		np := b
		np.Path = append([]Step(nil), b.Path...)
		for _, i := range path {
			np.Path = append(np.Path, Step{Field: i})
		}
		v := fx.loadPtr(e.st, np)
		if b.Kind == pkElem {
			e.notePattern(v, b.Idx)
		}
		return v
	}
	cfail("field access .%s on %T (%s)", x.Name, base, ExprString(x.X))
	return nil
}

func (e *Env) call(x *CallE) Val {
	fx := e.fx
	boolTyp := types.Typ[types.Bool]
	switch x.Fun {
	case "len", "cap":
		v := e.eval(x.Args[0])
		if p, ok := v.(PtrV); ok {
			v = fx.loadPtr(e.st, p)
		}
		switch s := v.(type) {
		case SliceV:
			if x.Fun == "len" {
				return Sc{s.Len, types.Typ[types.Int]}
			}
			return Sc{s.Cap, types.Typ[types.Int]}
		case StrV:
			return Sc{s.Len, types.Typ[types.Int]}
		case Sc:
			if a, ok := under(s.Typ).(*types.Array); ok {
				return Sc{fx.idx(a.Len()), types.Typ[types.Int]}
			}
		}
		cfail("len/cap of %s", ExprString(x.Args[0]))
	case "min", "max":
		a, b := e.unify(e.eval(x.Args[0]), e.eval(x.Args[1]))
		as, bs := a.(Sc), b.(Sc)
		c := Lt(as.T, bs.T, true)
		if x.Fun == "max" {
			c = Lt(bs.T, as.T, true)
		}
		return Sc{Ite(c, as.T, bs.T), as.Typ}
	case "has":
		// has(m, k): key k is present in map m
		mv := e.eval(x.Args[0])
		if p, ok := mv.(PtrV); ok {
			mv = fx.loadPtr(e.st, p)
		}
		sc, ok := mv.(Sc)
		if !ok || sc.Typ == nil {
			cfail("has() needs a map")
		}
		mt, isMap := under(sc.Typ).(*types.Map)
		if !isMap {
			cfail("has() needs a map")
		}
		_, present := e.mapGet(sc, mt, x.Args[1])
		return Sc{present, boolTyp}
	case "umod":
		// umod(x, n): the mathematical (Euclidean) remainder, as in unsigned wrap-around arithmetic
		if fx.bv {
			cfail("umod is for mode int")
		}
		a, b := e.eval(x.Args[0]).(Sc), e.eval(x.Args[1]).(Sc)
		return Sc{app("mod", SInt, a.T, b.T), types.Typ[types.Int]}
	case "istype", "dyn":
		// istype(x, "T"): the interface value x is non-nil and holds a T; dyn(x, "T"): the T it holds
		if len(x.Args) != 2 {
			cfail("%s(x, \"T\") takes two arguments", x.Fun)
		}
		lit, ok := x.Args[1].(*StrLit)
		if !ok {
			cfail("%s needs the type as a string literal", x.Fun)
		}
		t := fx.typeByName(e.pkg, lit.Val)
		if t == nil || types.IsInterface(t) {
			cfail("%s: %s is not a concrete type visible from the package", x.Fun, lit.Val)
		}
		hv := e.eval(x.Args[0])
		if p, ok := hv.(PtrV); ok && p.Kind != pkHeap {
			hv = fx.loadPtr(e.st, p)
		}
		h, ok := hv.(Sc)
		if !ok || h.T.Sort != SInt {
			cfail("%s: first argument is not an interface value", x.Fun)
		}
		if x.Fun == "istype" {
			return Sc{fx.isType(h.T, t), boolTyp}
		}
		return fx.dynPayload(h.T, t)
	case "pure0", "pure1":
		// pureN("pkg.Func", args...): result N of a pure (trusted) library function
		lit, ok := x.Args[0].(*StrLit)
		if !ok {
			cfail("%s needs the function name as a string literal", x.Fun)
		}
		fn := fx.eng.funcByKey(lit.Val)
		if fn == nil {
			cfail("%s: unknown function %s", x.Fun, lit.Val)
		}
		if sp, _ := fx.eng.specFor(fn); sp == nil || !sp.Pure {
			cfail("%s: %s has no pure contract", x.Fun, lit.Val)
		}
		var args []Val
		for _, a := range x.Args[1:] {
			args = append(args, e.eval(a))
		}
		i := 0
		if x.Fun == "pure1" {
			i = 1
		}
		v, ok := fx.pureApp(fn, i, args)
		if !ok {
			cfail("%s: %s is not a function of scalars and strings", x.Fun, lit.Val)
		}
		fx.trusted[lit.Val] = true
		return v
	case "disjoint":
		a, ok1 := e.eval(x.Args[0]).(SliceV)
		b, ok2 := e.eval(x.Args[1]).(SliceV)
		if !ok1 || !ok2 {
			cfail("disjoint needs slices")
		}
		return Sc{Or(Not(Eq(a.Base, b.Base)), Le(Add(a.Off, a.Cap), b.Off, true), Le(Add(b.Off, b.Cap), a.Off, true),
			Eq(a.Cap, fx.idx(0)), Eq(b.Cap, fx.idx(0))), boolTyp}
	case "newlines":
		// newlines(s, a, b): number of '\n' bytes among s[a..b)
		if fx.bv {
			cfail("newlines is for mode int")
		}
		s, ok := e.eval(x.Args[0]).(StrV)
		if !ok || len(x.Args) != 3 {
			cfail("newlines(s, a, b) needs a string and two positions")
		}
		a, b := e.intT(x.Args[1]), e.intT(x.Args[2])
		return Sc{fx.newlinesTerm(s.Base, Add(s.Off, a), Add(s.Off, b)), types.Typ[types.Int]}
	case "otherarray":
		// otherarray(a, b): the two slices live in different backing arrays (or one has no storage)
		a, ok1 := e.eval(x.Args[0]).(SliceV)
		b, ok2 := e.eval(x.Args[1]).(SliceV)
		if !ok1 || !ok2 {
			cfail("otherarray needs slices")
		}
		return Sc{Or(Not(Eq(a.Base, b.Base)), Eq(a.Cap, fx.idx(0)), Eq(b.Cap, fx.idx(0))), boolTyp}
	case "fresh":
		switch v := e.eval(x.Args[0]).(type) {
		case SliceV:
			return Sc{Or(Le(fx.allocAtEntry(e), v.Base, true), Eq(v.Cap, fx.idx(0))), boolTyp}
		case PtrV:
			return Sc{Le(fx.allocAtEntry(e), ptrRefLoose(v), true), boolTyp}
		}
		cfail("fresh needs a slice or pointer")
	case "sameslice":
		if sa, ok := e.eval(x.Args[0]).(StrV); ok {
			// strings: the same substring of the same text (implies equal contents)
			sb := e.eval(x.Args[1]).(StrV)
			return Sc{And(Eq(sa.Base, sb.Base), Eq(sa.Off, sb.Off), Eq(sa.Len, sb.Len)), boolTyp}
		}
		a, b := e.eval(x.Args[0]).(SliceV), e.eval(x.Args[1]).(SliceV)
		return Sc{And(Eq(a.Base, b.Base), Eq(a.Off, b.Off), Eq(a.Len, b.Len)), boolTyp}
	case "within":
		// within(a, b): a is a sub-slice b[i:j] of b (same backing array, inside b's length)
		a, b := e.eval(x.Args[0]).(SliceV), e.eval(x.Args[1]).(SliceV)
		return Sc{And(Eq(a.Base, b.Base), Le(b.Off, a.Off, true), Le(Add(a.Off, a.Len), Add(b.Off, b.Len), true), Le(fx.idx(0), a.Len, true)), boolTyp}
	case "suffixof":
		// suffixof(a, b): a is b[j:] for some j (same backing array, same end) - what repeated a = a[k:] keeps
		a, b := e.eval(x.Args[0]).(SliceV), e.eval(x.Args[1]).(SliceV)
		return Sc{And(Eq(a.Base, b.Base), Eq(Add(a.Off, a.Len), Add(b.Off, b.Len)), Le(a.Len, b.Len, true), Le(fx.idx(0), a.Len, true)), boolTyp}
	case "samearray":
		a, b := e.eval(x.Args[0]).(SliceV), e.eval(x.Args[1]).(SliceV)
		return Sc{And(Eq(a.Base, b.Base), Eq(a.Off, b.Off)), boolTyp}
	case "int", "int32", "int64", "rune", "uint8", "byte", "uint", "uint32", "uint64", "int8", "int16", "uint16", "Sym":
		v := e.eval(x.Args[0]).(Sc)
		if !fx.bv {
			return Sc{v.T, types.Typ[types.Int]}
		}
		to := map[string]types.Type{"int": types.Typ[types.Int], "int32": types.Typ[types.Int32], "int64": types.Typ[types.Int64],
			"rune": types.Typ[types.Int32], "uint8": types.Typ[types.Uint8], "byte": types.Typ[types.Uint8], "uint": types.Typ[types.Uint],
			"uint32": types.Typ[types.Uint32], "uint64": types.Typ[types.Uint64], "int8": types.Typ[types.Int8], "int16": types.Typ[types.Int16],
			"uint16": types.Typ[types.Uint16], "Sym": types.Typ[types.Int]}[x.Fun]
		if v.T.Sort == SInt {
			n, _ := isIntLit(v.T)
			return Sc{BVC(bigInt(n), intWidth(to)), to}
		}
		from := v.Typ
		if from == nil {
			from = types.Typ[types.Int]
		}
		return Sc{fx.convInt(v.T, from, to), to}
	}
	ps := fx.eng.lookupPred(e.pkg, x.Fun)
	if ps == nil {
		cfail("unknown spec function %q", x.Fun)
	}
	if len(ps.Params) != len(x.Args) {
		cfail("%s expects %d arguments", x.Fun, len(ps.Params))
	}
	if ps.BvAbs && !fx.bv {
		return e.callAbstract(ps, x)
	}
	if ps.Rec || ps.AsFun {
		return e.callRec(ps, x)
	}
	if e.depth > 24 {
		cfail("spec function recursion too deep at %s", x.Fun)
	}
	n := e.child()
	n.depth = e.depth + 1
	n.vars = map[string]Val{}
	for k, v := range e.vars {
		if strings.HasPrefix(k, "$q:") {
			n.vars[k] = v
		}
	}
	n.lookup = nil
	for i, p := range ps.Params {
		n.vars[p.Name] = e.eval(x.Args[i])
	}
	if pk := fx.eng.predPkg(e.pkg, x.Fun); pk != nil {
		n.pkg = pk
	}
	return n.eval(ps.Body)
}

func (fx *FuncVC) allocAtEntry(e *Env) T {
	if e.old != nil && e.old.st != nil {
		return e.old.st.alloc
	}
	return fx.alloc0
}

// quant translates a bounded quantifier (rule R1: re-base onto the absolute backing-array index).
func (e *Env) quant(q *Quant) Val {
	fx := e.fx
	lo, hi := e.idxT(q.Lo), e.idxT(q.Hi)
	j := fx.freshBound(q.Var)
	n := e.child()
	n.bound = map[string]bool{}
	for k := range e.bound {
		n.bound[k] = true
	}
	n.bound[j.S] = true
	var pats []string
	n.pats = &pats
	var kTerm T = j
	var guard T
	var anchorOff *T
	if !fx.bv || (fx.spec != nil && fx.spec.Options["bv-rebase"] != "") {
		if anchor := findAnchor(q.Body, q.Var); anchor != nil {
			func() {
				defer func() {
					if r := recover(); r != nil {
						if _, ok := r.(contractErr); !ok {
							panic(r)
						}
					}
				}()
				av := n.eval(anchor)
				if p, ok := av.(PtrV); ok {
					av = fx.loadPtr(e.st, p)
				}
				switch s := av.(type) {
				case SliceV:
					kTerm = Sub(j, s.Off)
					o := s.Off
					anchorOff = &o
				case StrV:
					kTerm = Sub(j, s.Off)
					o := s.Off
					anchorOff = &o
				}
			}()
		}
		off := Sub(j, kTerm) // == s.Off or 0
		if fx.bv {
			// mode bv: no symbolic simplification of j - (j - off); offsets and lengths are at most 2^40, so nothing wraps
			off = fx.idx(0)
			if anchorOff != nil {
				off = *anchorOff
			}
		}
		guard = And(Le(Add(lo, off), j, true), Lt(j, Add(hi, off), true))
	} else {
		guard = And(Le(lo, j, true), Lt(j, hi, true))
	}
	n.vars[q.Var] = Sc{kTerm, types.Typ[types.Int]}
	n.vars["$q:"+q.Var] = Sc{kTerm, types.Typ[types.Int]}
	pats = nil
	body := n.boolT(q.Body)
	var inner T
	if q.Forall {
		inner = Implies(guard, body)
	} else {
		inner = And(guard, body)
	}
	// De-duplicate patterns; each is an alternative trigger.
	seen := map[string]bool{}
	var attrs []string
	for _, p := range pats {
		// boolean connectives and ite are not allowed inside patterns
		if strings.Contains(p, "(not ") || strings.Contains(p, "(ite ") || strings.Contains(p, "(and ") || strings.Contains(p, "(or ") || strings.Contains(p, "(=> ") || strings.Contains(p, "(<= ") || strings.Contains(p, "(< ") || strings.Contains(p, "(= ") {
			continue
		}
		if !seen[p] && strings.Contains(p, j.S) {
			seen[p] = true
			attrs = append(attrs, ":pattern ("+p+")")
		}
	}
	kw := "exists"
	if q.Forall {
		kw = "forall"
	}
	bodyS := inner.S
	if len(attrs) > 0 && len(attrs) <= 4 {
		bodyS = "(! " + inner.S + " " + strings.Join(attrs, " ") + ")"
	}
	return Sc{T{fmt.Sprintf("(%s ((%s %s)) %s)", kw, j.S, j.Sort, bodyS), SBool}, types.Typ[types.Bool]}
}

// findAnchor returns the X of the first X[v], X[v+c] or X[v-c] in body where X does not mention v.
func findAnchor(body Expr, v string) Expr {
	var found Expr
	var walk func(x Expr)
	isVarIdx := func(i Expr) bool {
		switch i := i.(type) {
		case *Ident:
			return i.Name == v
		case *Binary:
			if i.Op == "+" || i.Op == "-" {
				if id, ok := i.X.(*Ident); ok && id.Name == v {
					if _, lit := i.Y.(*IntLit); lit {
						return true
					}
				}
			}
		}
		return false
	}
	walk = func(x Expr) {
		if found != nil || x == nil {
			return
		}
		switch x := x.(type) {
		case *IndexE:
			if isVarIdx(x.I) && !mentions(x.X, v) {
				found = x.X
				return
			}
			walk(x.X)
			walk(x.I)
		case *SliceE:
			walk(x.X)
			walk(x.Lo)
			walk(x.Hi)
		case *Unary:
			walk(x.X)
		case *Binary:
			walk(x.X)
			walk(x.Y)
		case *FieldE:
			walk(x.X)
		case *CallE:
			for _, a := range x.Args {
				walk(a)
			}
		case *Quant:
			if x.Var != v {
				walk(x.Lo)
				walk(x.Hi)
				walk(x.Body)
			}
		case *OldE:
			walk(x.X)
		case *CondE:
			walk(x.C)
			walk(x.A)
			walk(x.B)
		case *LetE:
			walk(x.Val)
			walk(x.Body)
		}
	}
	walk(body)
	return found
}

func mentions(x Expr, v string) bool {
	switch x := x.(type) {
	case nil:
		return false
	case *Ident:
		return x.Name == v
	case *IndexE:
		return mentions(x.X, v) || mentions(x.I, v)
	case *SliceE:
		return mentions(x.X, v) || (x.Lo != nil && mentions(x.Lo, v)) || (x.Hi != nil && mentions(x.Hi, v))
	case *Unary:
		return mentions(x.X, v)
	case *Binary:
		return mentions(x.X, v) || mentions(x.Y, v)
	case *FieldE:
		return mentions(x.X, v)
	case *CallE:
		for _, a := range x.Args {
			if mentions(a, v) {
				return true
			}
		}
	case *Quant:
		return mentions(x.Lo, v) || mentions(x.Hi, v) || (x.Var != v && mentions(x.Body, v))
	case *OldE:
		return mentions(x.X, v)
	case *CondE:
		return mentions(x.C, v) || mentions(x.A, v) || mentions(x.B, v)
	case *LetE:
		return mentions(x.Val, v) || (x.Var != v && mentions(x.Body, v))
	}
	return false
}

// mapGet reads m[key] in the environment's state: (value, present).
func (e *Env) mapGet(mv Sc, mt *types.Map, key Expr) (Val, T) {
	fx := e.fx
	ks, pn, vl, vn := fx.mapHeaps(mt)
	kv := e.eval(key)
	if sc, ok := kv.(Sc); ok && sc.T.Sort != ks[0] && len(ks) == 1 {
		// untyped literal key
		if fx.bv {
			n, _ := isIntLit(sc.T)
			kv = Sc{BVC(bigInt(n), ks[0].Width()), mt.Key()}
		}
	}
	keys := flat(kv)
	ph := fx.heap(e.st, pn, SArr(SInt, nestedArr(ks, SBool)))
	present := And(Not(Eq(mv.T, IntC(0))), selectN(Select(ph, mv.T), keys))
	var ls []T
	for i, l := range vl {
		vh := fx.heap(e.st, vn[i], SArr(SInt, nestedArr(ks, l.Sort)))
		ls = append(ls, Ite(present, selectN(Select(vh, mv.T), keys), fx.zeroOfSort(l.Sort)))
	}
	return fx.build(mt.Elem(), ls), present
}
