package vc

// Dynamic types of interface values. An interface value is an integer handle (0 = nil). Two
// uninterpreted functions describe what it holds:
//
//	dyntype(h)            the identity of its dynamic type (a small integer per concrete type)
//	dyn_<T>_<leaf>(h)     for the concrete type T, the leaves of the value it holds
//
// MakeInterface allocates a fresh handle and records both; a type assertion to a concrete type reads
// them back (x.(T) without ", ok" is an obligation: a failed assertion panics). Assertions to
// interface types stay outside the subset. Handles coming from outside (parameters, results of opaque
// calls) have an unknown dynamic type, so an assertion on them is provable only through a contract
// that says `istype(x, "T")`.

import (
	"fmt"
	"go/token"
	"go/types"
	"strings"
)

func (fx *FuncVC) typeID(t types.Type) (int, string) {
	key := types.TypeString(t, nil)
	if fx.typeIDs == nil {
		fx.typeIDs = map[string]int{}
	}
	id, ok := fx.typeIDs[key]
	if !ok {
		id = len(fx.typeIDs) + 1
		fx.typeIDs[key] = id
	}
	return id, sanitize(strings.NewReplacer("*", "P_", "/", "_", ".", "_", "[", "_", "]", "_").Replace(key))
}

func (fx *FuncVC) dynTypeOf(h T) T {
	fx.declareFun("dyntype", []Sort{SInt}, SInt)
	return app("dyntype", SInt, h)
}

// isType: h is a non-nil interface value whose dynamic type is t.
func (fx *FuncVC) isType(h T, t types.Type) T {
	id, _ := fx.typeID(t)
	return And(Not(Eq(h, IntC(0))), Eq(fx.dynTypeOf(h), IntC(int64(id))))
}

// dynPayload: the value of concrete type t held by the interface handle h.
func (fx *FuncVC) dynPayload(h T, t types.Type) Val {
	_, tn := fx.typeID(t)
	var ls []T
	for _, l := range fx.leavesOf(t) {
		name := "dyn_" + tn + sanitize(l.Path)
		fx.declareFun(name, []Sort{SInt}, l.Sort)
		ls = append(ls, app(name, l.Sort, h))
	}
	return fx.build(t, ls)
}

// makeIface: a fresh non-nil handle holding v of concrete type t.
func (fx *FuncVC) makeIface(v Val, t types.Type, it types.Type) Val {
	r := fx.fresh("iface", SInt)
	fx.assume(Lt(IntC(0), r, true))
	if types.IsInterface(t) {
		return Sc{r, it}
	}
	id, _ := fx.typeID(t)
	fx.assume(Eq(fx.dynTypeOf(r), IntC(int64(id))))
	func() {
		// the payload is recorded when the value has a flat representation (no closures, no pointers to locals)
		defer func() {
			if e := recover(); e != nil {
				if _, ok := e.(unsupportedErr); !ok {
					panic(e)
				}
			}
		}()
		if p, ok := v.(PtrV); ok && p.Kind == pkCell {
			return
		}
		have := flat(v)
		want := flat(fx.dynPayload(r, t))
		if len(have) != len(want) {
			panic(fmt.Sprintf("makeIface: %d leaves for %s, want %d", len(have), t, len(want)))
		}
		for i := range have {
			if have[i].Sort != want[i].Sort {
				return
			}
		}
		for i := range have {
			fx.assume(Eq(want[i], have[i]))
		}
	}()
	return Sc{r, it}
}

// typeAssert: x.(T) for a concrete T.
func (fx *FuncVC) typeAssert(x Val, t types.Type, commaOk bool, pos token.Pos) Val {
	if types.IsInterface(t) {
		panic(unsupported("type assertion to an interface type"))
	}
	h := x.(Sc).T
	is := fx.isType(h, t)
	payload := fx.dynPayload(h, t)
	if !commaOk {
		fx.oblige("fatal", is, pos, fmt.Sprintf("type assertion: the value is a %s", types.TypeString(t, nil)))
		fx.assume(is)
		return payload
	}
	zero := flat(fx.zeroVal(t))
	pl := flat(payload)
	ls := make([]T, len(pl))
	for i := range pl {
		ls[i] = Ite(is, pl[i], zero[i])
	}
	return TupleV{[]Val{fx.build(t, ls), Sc{is, types.Typ[types.Bool]}}}
}

// typeByName resolves "T", "pkg.T" or "*pkg.T" as seen from a package (its own scope and its imports).
func (fx *FuncVC) typeByName(pkg *PkgInfo, s string) types.Type {
	if pkg == nil {
		pkg = fx.pkg
	}
	if strings.HasPrefix(s, "*") {
		if t := fx.typeByName(pkg, s[1:]); t != nil {
			return types.NewPointer(t)
		}
		return nil
	}
	if i := strings.LastIndex(s, "."); i >= 0 {
		pn, tn := s[:i], s[i+1:]
		var find func(p *types.Package, seen map[*types.Package]bool) types.Type
		find = func(p *types.Package, seen map[*types.Package]bool) types.Type {
			if seen[p] {
				return nil
			}
			seen[p] = true
			if p.Name() == pn || p.Path() == pn {
				if obj, ok := p.Scope().Lookup(tn).(*types.TypeName); ok {
					return obj.Type()
				}
			}
			for _, imp := range p.Imports() {
				if t := find(imp, seen); t != nil {
					return t
				}
			}
			return nil
		}
		return find(pkg.Types, map[*types.Package]bool{})
	}
	return fx.eng.resolveType(pkg, s)
}
