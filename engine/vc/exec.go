package vc

import (
	"fmt"
	"go/constant"
	"go/token"
	"go/types"
	"math/big"
	"sort"

	"golang.org/x/tools/go/ssa"
)

func bigInt(v int64) *big.Int { return big.NewInt(v) }

// frame is one activation of a function body being executed symbolically.
type frame struct {
	fn      *ssa.Function
	spec    *FuncSpec // may be nil for inlined bodies
	regs    map[ssa.Value]Val
	cells   map[*ssa.Alloc]*Cell
	params  []Val
	bind    []Val // free variables
	outer   []*havocSet
	top     bool
	loops   map[*ssa.BasicBlock]*loopInfo
	order   []*ssa.BasicBlock
	rets    []retPoint
	parent  *frame
	callPos token.Pos
}

type retPoint struct {
	st   *State
	vals []Val
	pos  token.Pos
}

type loopInfo struct {
	header  *ssa.BasicBlock
	blocks  map[*ssa.BasicBlock]bool
	ordinal int
	spec    *LoopSpec
	minPos  token.Pos
	decr    T // value of the variant at the loop head
	hasDecr bool
}

type edge struct{ from, to *ssa.BasicBlock }

func isBackEdge(from, to *ssa.BasicBlock) bool { return to.Dominates(from) }

// analyzeLoops finds natural loops and their ordinals (by smallest source position).
func (fx *FuncVC) analyzeLoops(fn *ssa.Function) map[*ssa.BasicBlock]*loopInfo {
	loops := map[*ssa.BasicBlock]*loopInfo{}
	for _, b := range fn.Blocks {
		for _, s := range b.Succs {
			if isBackEdge(b, s) {
				li := loops[s]
				if li == nil {
					li = &loopInfo{header: s, blocks: map[*ssa.BasicBlock]bool{s: true}}
					loops[s] = li
				}
				// natural loop: nodes that reach b without passing through s
				var stack []*ssa.BasicBlock
				if !li.blocks[b] {
					li.blocks[b] = true
					stack = append(stack, b)
				}
				for len(stack) > 0 {
					x := stack[len(stack)-1]
					stack = stack[:len(stack)-1]
					for _, p := range x.Preds {
						if !li.blocks[p] {
							li.blocks[p] = true
							stack = append(stack, p)
						}
					}
				}
			}
		}
	}
	var list []*loopInfo
	for _, li := range loops {
		li.minPos = token.Pos(1 << 40)
		for b := range li.blocks {
			for _, in := range b.Instrs {
				if _, isAlloc := in.(*ssa.Alloc); isAlloc {
					continue
				}
				if p := in.Pos(); p.IsValid() && p < li.minPos {
					li.minPos = p
				}
			}
		}
		list = append(list, li)
	}
	sort.Slice(list, func(i, j int) bool {
		if list[i].minPos != list[j].minPos {
			return list[i].minPos < list[j].minPos
		}
		// outer loops first (more blocks)
		return len(list[i].blocks) > len(list[j].blocks)
	})
	for i, li := range list {
		li.ordinal = i + 1
	}
	return loops
}

// rpo returns the blocks in reverse post-order of the CFG without back edges.
func rpo(fn *ssa.Function) []*ssa.BasicBlock {
	seen := map[*ssa.BasicBlock]bool{}
	var post []*ssa.BasicBlock
	var dfs func(b *ssa.BasicBlock)
	dfs = func(b *ssa.BasicBlock) {
		seen[b] = true
		for _, s := range b.Succs {
			if isBackEdge(b, s) || seen[s] {
				continue
			}
			dfs(s)
		}
		post = append(post, b)
	}
	dfs(fn.Blocks[0])
	for i, j := 0, len(post)-1; i < j; i, j = i+1, j-1 {
		post[i], post[j] = post[j], post[i]
	}
	return post
}

// runBody executes fn from state fx.st; returns the return points.
func (fx *FuncVC) runBody(fr *frame) []retPoint {
	fn := fr.fn
	if fn.Blocks == nil {
		panic(unsupported("function %s has no body", fn))
	}
	if fn.Recover != nil && callsRecover(fn) {
		panic(unsupported("function %s uses recover", fn))
	}
	fr.loops = fx.analyzeLoops(fn)
	if fr.spec != nil {
		for ord := range fr.spec.Loops {
			found := false
			for _, li := range fr.loops {
				if li.ordinal == ord {
					li.spec = fr.spec.Loops[ord]
					found = true
				}
			}
			if !found {
				panic(staleErr(fmt.Sprintf("%s: contract names loop %d but the function has %d loop(s)", fn.Name(), ord, len(fr.loops))))
			}
		}
	}
	fr.order = rpo(fn)
	prevFrame := fx.curFrame
	fx.curFrame = fr
	defer func() { fx.curFrame = prevFrame }()

	in := map[edge]*State{}
	entrySt := fx.st
	for bi, b := range fr.order {
		var st *State
		if bi == 0 {
			st = entrySt
		} else {
			var preds []*State
			for _, p := range b.Preds {
				if isBackEdge(p, b) {
					continue
				}
				if s, ok := in[edge{p, b}]; ok && !s.dead {
					preds = append(preds, s)
				}
			}
			if len(preds) == 0 {
				continue // unreachable
			}
			st = fx.mergeStates(preds, fmt.Sprintf("b%d", b.Index))
		}
		fx.st = st
		fx.active = append(append([]*havocSet(nil), fr.outer...), fx.loopsOf(fr, b)...)
		if li := fr.loops[b]; li != nil {
			fx.loopHead(fr, li)
		}
		fx.execBlock(fr, b, in)
	}
	return fr.rets
}

// loopsOf lists the havoc sets of loops containing block b (in frame fr).
func (fx *FuncVC) loopsOf(fr *frame, b *ssa.BasicBlock) []*havocSet {
	var out []*havocSet
	for _, li := range fr.loops {
		if li.blocks[b] {
			hs := fx.havoc[li.header]
			if hs == nil {
				hs = &havocSet{cells: map[*Cell]bool{}, heaps: map[string]bool{}}
				fx.havoc[li.header] = hs
			}
			out = append(out, hs)
		}
	}
	return out
}

// mergeStates joins predecessor states.
func (fx *FuncVC) mergeStates(preds []*State, hint string) *State {
	if len(preds) == 1 {
		return preds[0].clone()
	}
	out := &State{cells: map[*Cell]Val{}, heaps: map[string]T{}}
	var pcs []T
	for _, p := range preds {
		pcs = append(pcs, p.pc)
	}
	pc := Or(pcs...)
	out.pc = pc
	out.split = pcs
	if len(pc.S) > 60 {
		c := fx.fresh("pc_"+hint, SBool)
		fx.assumeRaw(Eq(c, pc))
		out.pc = c
	}
	// cells present in every predecessor
	for c, v0 := range preds[0].cells {
		all := true
		same := true
		for _, p := range preds[1:] {
			v, ok := p.cells[c]
			if !ok {
				all = false
				break
			}
			if !valSame(v0, v) {
				same = false
			}
		}
		if !all {
			continue
		}
		if same {
			out.cells[c] = v0
			continue
		}
		m := preds[len(preds)-1].cells[c]
		for i := len(preds) - 2; i >= 0; i-- {
			m = fx.iteVal(preds[i].pc, preds[i].cells[c], m)
		}
		out.cells[c] = fx.defineVal(c.Name, m)
	}
	// heaps
	names := map[string]bool{}
	for _, p := range preds {
		for n := range p.heaps {
			names[n] = true
		}
	}
	for _, n := range sortedKeys(names) {
		var sortOf Sort
		for _, p := range preds {
			if h, ok := p.heaps[n]; ok {
				sortOf = h.Sort
			}
		}
		get := func(p *State) T { return fx.heap(p, n, sortOf) }
		h0 := get(preds[0])
		same := true
		for _, p := range preds[1:] {
			if get(p).S != h0.S {
				same = false
			}
		}
		if same {
			out.heaps[n] = h0
			continue
		}
		m := get(preds[len(preds)-1])
		for i := len(preds) - 2; i >= 0; i-- {
			m = Ite(preds[i].pc, get(preds[i]), m)
		}
		c := fx.fresh(n, m.Sort)
		fx.assumeRaw(Eq(c, m))
		out.heaps[n] = c
	}
	// alloc
	a := preds[len(preds)-1].alloc
	for i := len(preds) - 2; i >= 0; i-- {
		a = Ite(preds[i].pc, preds[i].alloc, a)
	}
	out.alloc = fx.define("alloc", a)
	// defers must agree
	out.defers = preds[0].defers
	for _, p := range preds[1:] {
		if len(p.defers) != len(out.defers) {
			panic(unsupported("paths with different defer stacks join"))
		}
		for i := range p.defers {
			if p.defers[i].instr != out.defers[i].instr {
				panic(unsupported("paths with different defer stacks join"))
			}
		}
	}
	return out
}

type staleErr string

// execBlock runs the instructions of b and records outgoing edge states.
func (fx *FuncVC) execBlock(fr *frame, b *ssa.BasicBlock, in map[edge]*State) {
	for _, instr := range b.Instrs {
		if phi, ok := instr.(*ssa.Phi); ok {
			fx.execPhi(fr, b, phi, in)
			continue
		}
		if fx.st.dead {
			return
		}
		switch x := instr.(type) {
		case *ssa.If:
			c := fx.val(fr, x.Cond).(Sc).T
			c = fx.define("c", c)
			fx.flow(fr, b, b.Succs[0], c, in)
			fx.flow(fr, b, b.Succs[1], Not(c), in)
			return
		case *ssa.Jump:
			fx.flow(fr, b, b.Succs[0], True, in)
			return
		case *ssa.Return:
			var vals []Val
			for _, r := range x.Results {
				vals = append(vals, fx.val(fr, r))
			}
			fr.rets = append(fr.rets, retPoint{fx.st, vals, x.Pos()})
			return
		case *ssa.Panic:
			fx.oblige("fatal", False, x.Pos(), "panic is unreachable")
			fx.st.dead = true
			return
		default:
			fx.execInstr(fr, instr)
		}
	}
}

// flow propagates the current state along an edge with an extra condition.
func (fx *FuncVC) flow(fr *frame, from, to *ssa.BasicBlock, cond T, in map[edge]*State) {
	st := fx.st.clone()
	st.pc = And(fx.st.pc, cond)
	if st.pc.S == "false" {
		return
	}
	if len(st.pc.S) > 80 {
		saved := fx.st
		fx.st = nil
		c := fx.fresh("pc", SBool)
		fx.assumeRaw(Eq(c, st.pc))
		fx.st = saved
		st.pc = c
	}
	if isBackEdge(from, to) {
		saved := fx.st
		fx.st = st
		fx.loopBack(fr, fr.loops[to], from)
		fx.st = saved
		return
	}
	in[edge{from, to}] = st
}

// val returns the symbolic value of an SSA value.
func (fx *FuncVC) val(fr *frame, v ssa.Value) Val {
	switch v := v.(type) {
	case *ssa.Const:
		return fx.constVal(v)
	case *ssa.Parameter:
		for i, p := range fr.fn.Params {
			if p == v {
				return fr.params[i]
			}
		}
	case *ssa.FreeVar:
		for i, p := range fr.fn.FreeVars {
			if p == v {
				return fr.bind[i]
			}
		}
	case *ssa.Function:
		return FuncV{Fn: v}
	case *ssa.Global:
		return fx.globalPtr(v)
	case *ssa.Builtin:
		panic(unsupported("builtin %s used as a value", v.Name()))
	}
	if r, ok := fr.regs[v]; ok {
		return r
	}
	panic(unsupported("value %s (%T) used before definition (loop-carried register?)", v.Name(), v))
}

func (fx *FuncVC) constVal(c *ssa.Const) Val {
	t := c.Type()
	if c.Value == nil {
		// nil / zero value
		switch under(t).(type) {
		case *types.Pointer:
			return PtrV{Kind: pkNil, Typ: t, Root: under(t).(*types.Pointer).Elem()}
		}
		return fx.zeroVal(t)
	}
	switch {
	case isBoolean(t):
		if constant.BoolVal(c.Value) {
			return Sc{True, t}
		}
		return Sc{False, t}
	case isInteger(t):
		bi, ok := constant.Val(constant.ToInt(c.Value)).(*big.Int)
		if !ok {
			i64, _ := constant.Int64Val(constant.ToInt(c.Value))
			bi = big.NewInt(i64)
		}
		if fx.bv {
			return Sc{BVC(bi, intWidth(t)), t}
		}
		return Sc{IntBig(bi), t}
	case isString(t):
		return fx.strConst(constant.StringVal(c.Value))
	}
	panic(unsupported("constant %s of type %s", c, t))
}

func (fx *FuncVC) globalPtr(g *ssa.Global) PtrV {
	if p, ok := fx.globals[g]; ok {
		return p
	}
	elem := g.Type().(*types.Pointer).Elem()
	ref := fx.fresh("glob_"+g.Name(), SInt)
	fx.assumeRaw(And(Lt(IntC(0), ref, true), Lt(ref, fx.alloc0, true)))
	for _, o := range fx.globals {
		if types.Identical(o.Root, elem) {
			fx.assumeRaw(Not(Eq(ref, o.Ref)))
		}
	}
	p := PtrV{Kind: pkHeap, Ref: ref, Root: elem, Typ: g.Type()}
	fx.globals[g] = p
	return p
}

func (fx *FuncVC) setReg(fr *frame, v ssa.Value, x Val) {
	fr.regs[v] = fx.defineVal(v.Name(), x)
}

func (fx *FuncVC) execInstr(fr *frame, instr ssa.Instruction) {
	switch x := instr.(type) {
	case *ssa.DebugRef:
	case *ssa.Alloc:
		fx.execAlloc(fr, x)
	case *ssa.Store:
		p := fx.val(fr, x.Addr).(PtrV)
		fx.checkDeref(p, x.Pos())
		v := fx.val(fr, x.Val)
		fx.frameCheck(p, x.Pos())
		fx.storePtr(p, fx.coerce(v, typeAt(p.Root, p.Path)))
	case *ssa.UnOp:
		fx.execUnOp(fr, x)
	case *ssa.BinOp:
		a, b := fx.val(fr, x.X), fx.val(fr, x.Y)
		fx.setReg(fr, x, fx.binop(x.Op, a, b, x.X.Type(), x.Y.Type(), x.Type(), x.Pos()))
	case *ssa.Convert:
		fx.setReg(fr, x, fx.convert(fx.val(fr, x.X), x.X.Type(), x.Type(), x.Pos()))
	case *ssa.ChangeType:
		fx.setReg(fr, x, fx.retype(fx.val(fr, x.X), x.Type()))
	case *ssa.MakeInterface:
		fx.setReg(fr, x, fx.makeIface(fx.val(fr, x.X), x.X.Type(), x.Type()))
	case *ssa.ChangeInterface:
		fx.setReg(fr, x, fx.retype(fx.val(fr, x.X), x.Type()))
	case *ssa.Field:
		sv := fx.val(fr, x.X).(StructV)
		fx.setReg(fr, x, sv.F[x.Field])
	case *ssa.FieldAddr:
		p := fx.val(fr, x.X).(PtrV)
		fx.checkDeref(p, x.Pos())
		np := p
		np.Path = append(append([]Step(nil), p.Path...), Step{Field: x.Field})
		np.Typ = x.Type()
		fx.setReg(fr, x, np)
	case *ssa.IndexAddr:
		fx.execIndexAddr(fr, x)
	case *ssa.Index:
		fx.execIndex(fr, x)
	case *ssa.Slice:
		fx.execSlice(fr, x)
	case *ssa.MakeSlice:
		n := fx.val(fr, x.Len).(Sc).T
		c := fx.val(fr, x.Cap).(Sc).T
		n = fx.toIdx(n, x.Len.Type())
		c = fx.toIdx(c, x.Cap.Type())
		fx.oblige("bounds", And(Le(fx.idx(0), n, true), Le(n, c, true)), x.Pos(), "make: 0 <= len <= cap")
		fx.assume(And(Le(fx.idx(0), n, true), Le(n, c, true)))
		elem := under(x.Type()).(*types.Slice).Elem()
		base := fx.allocArray(elem, "mk")
		fx.setReg(fr, x, SliceV{base, fx.idx(0), n, c, x.Type()})
	case *ssa.MakeMap:
		r := fx.newRef("map")
		fx.setReg(fr, x, Sc{r, x.Type()})
		fx.mapInit(x.Type(), r)
	case *ssa.Lookup:
		fx.execLookup(fr, x)
	case *ssa.MapUpdate:
		fx.execMapUpdate(fr, x)
	case *ssa.Phi:
		panic("phi handled at block entry")
	case *ssa.Extract:
		tv := fx.val(fr, x.Tuple).(TupleV)
		fx.setReg(fr, x, tv.V[x.Index])
	case *ssa.Call:
		res := fx.execCall(fr, &x.Call, x.Pos(), x)
		if res != nil {
			fx.setReg(fr, x, res)
		}
	case *ssa.Defer:
		rec := &deferRec{instr: x}
		if x.Call.IsInvoke() {
			panic(unsupported("defer of interface method"))
		}
		rec.fn = fx.calleeVal(fr, &x.Call)
		for _, a := range x.Call.Args {
			rec.args = append(rec.args, fx.val(fr, a))
		}
		if len(fx.active) > 0 && len(fx.loopsOf(fr, x.Block())) > 0 {
			panic(unsupported("defer inside a loop"))
		}
		fx.st.defers = append(fx.st.defers, rec)
	case *ssa.RunDefers:
		ds := fx.st.defers
		fx.st.defers = nil
		for i := len(ds) - 1; i >= 0; i-- {
			fx.callValue(fr, ds[i].fn, ds[i].args, ds[i].instr.Pos(), nil)
			if fx.st.dead {
				return
			}
		}
	case *ssa.MakeClosure:
		fv := FuncV{Fn: x.Fn.(*ssa.Function)}
		for _, b := range x.Bindings {
			fv.Bind = append(fv.Bind, fx.val(fr, b))
		}
		fr.regs[x] = fv
	case *ssa.Range:
		fx.execRange(fr, x)
	case *ssa.Next:
		fx.execNext(fr, x)
	case *ssa.TypeAssert:
		fx.setReg(fr, x, fx.typeAssert(fx.val(fr, x.X), x.AssertedType, x.CommaOk, x.Pos()))
	default:
		panic(unsupported("instruction %T: %s", instr, instr))
	}
}

func (fx *FuncVC) execAlloc(fr *frame, x *ssa.Alloc) {
	elem := x.Type().(*types.Pointer).Elem()
	if arr, ok := under(elem).(*types.Array); ok {
		if _, scalar := fx.scalarSort(elem); !scalar || x.Comment == "varargs" || x.Comment == "slicelit" || x.Comment == "makeslice" || isSliced(x) {
			// backing array of a slice: lives in the element heap
			base := fx.allocArray(arr.Elem(), x.Comment)
			fr.regs[x] = PtrV{Kind: pkElem, Base: base, Idx: fx.idx(-1), Root: arr.Elem(), Typ: x.Type(), Path: nil, Cell: &Cell{Typ: elem, Name: "$array"}}
			return
		}
	}
	if x.Heap && allocEscapesAsValue(x) {
		if _, isStruct := under(elem).(*types.Struct); isStruct {
			// &T{...} / new(T) whose pointer is stored, passed or returned: a fresh heap object
			fr.regs[x] = fx.allocObj(elem, nil, "new_"+x.Comment)
			return
		}
	}
	cell := fx.cellFor(x, x.Comment, elem)
	fr.cells[x] = cell
	fx.st.cells[cell] = fx.zeroVal(elem)
	fr.regs[x] = PtrV{Kind: pkCell, Cell: cell, Root: elem, Typ: x.Type()}
}

func (fx *FuncVC) checkDeref(p PtrV, pos token.Pos) {
	switch p.Kind {
	case pkNil:
		fx.oblige("nil", False, pos, "nil pointer dereference")
		fx.st.dead = true
	case pkHeap:
		if len(p.Path) == 0 {
			fx.oblige("nil", Not(Eq(p.Ref, IntC(0))), pos, "pointer is not nil")
			fx.assume(Not(Eq(p.Ref, IntC(0))))
		}
	}
}

func (fx *FuncVC) execUnOp(fr *frame, x *ssa.UnOp) {
	if g, ok := x.X.(*ssa.Global); ok && x.Op == token.MUL {
		// a package-level string variable that is initialised with a constant and never assigned again
		if lit, ok := fx.eng.constStringVar(g); ok {
			fr.regs[x] = fx.strConst(lit)
			fx.note("package-level string variable " + g.Name() + " is only assigned its constant initialiser (checked on the SSA): its value is used")
			return
		}
	}
	v := fx.val(fr, x.X)
	switch x.Op {
	case token.MUL:
		p := v.(PtrV)
		fx.checkDeref(p, x.Pos())
		if fx.st.dead {
			return
		}
		r := fx.loadPtr(fx.st, p)
		if p.Kind != pkCell {
			r = fx.defineVal(x.Name(), r)
			fx.assumeLoaded(r, typeAt(p.Root, p.Path))
		}
		fr.regs[x] = r
	case token.NOT:
		fx.setReg(fr, x, Sc{Not(v.(Sc).T), x.Type()})
	case token.SUB:
		t := v.(Sc).T
		var r T
		if t.Sort.IsBV() {
			r = Neg(t)
		} else {
			r = fx.wrapInt(Neg(t), x.Type(), x.Pos())
		}
		fx.setReg(fr, x, Sc{r, x.Type()})
	case token.XOR:
		t := v.(Sc).T
		var r T
		if t.Sort.IsBV() {
			r = app("bvnot", t.Sort, t)
		} else if isUnsigned(x.Type()) {
			_, hi, _ := sizedRange(x.Type())
			r = Sub(IntBig(hi), t)
		} else {
			r = Sub(Neg(t), IntC(1))
		}
		fx.setReg(fr, x, Sc{r, x.Type()})
	default:
		panic(unsupported("unary op %s", x.Op))
	}
}

// assumeLoaded assumes type facts about a value just read from a heap.
func (fx *FuncVC) assumeLoaded(v Val, t types.Type) {
	switch v := v.(type) {
	case Sc:
		if f, ok := fx.rangeFact(v.T, v.Typ); ok {
			fx.assume(f)
		}
	case SliceV, StrV, PtrV:
		fx.assumeWF(v)
	case StructV:
		for _, f := range v.F {
			fx.assumeLoaded(f, nil)
		}
	}
}

func (fx *FuncVC) retype(v Val, t types.Type) Val {
	switch v := v.(type) {
	case Sc:
		return Sc{v.T, t}
	case SliceV:
		v.Typ = t
		return v
	case StructV:
		v.Typ = t
		return v
	case PtrV:
		v.Typ = t
		return v
	}
	return v
}

// coerce adapts a value to the static type of its destination (pointer/ref conversions).
func (fx *FuncVC) coerce(v Val, t types.Type) Val {
	return v
}

func (fx *FuncVC) toIdx(t T, typ types.Type) T {
	if !fx.bv {
		return t
	}
	w := t.Sort.Width()
	if w == 64 {
		return t
	}
	if isUnsigned(typ) {
		return T{fmt.Sprintf("((_ zero_extend %d) %s)", 64-w, t.S), SBV(64)}
	}
	return T{fmt.Sprintf("((_ sign_extend %d) %s)", 64-w, t.S), SBV(64)}
}

func (fx *FuncVC) execIndexAddr(fr *frame, x *ssa.IndexAddr) {
	base := fx.val(fr, x.X)
	i := fx.toIdx(fx.val(fr, x.Index).(Sc).T, x.Index.Type())
	switch b := base.(type) {
	case SliceV:
		fx.oblige("bounds", And(Le(fx.idx(0), i, true), Lt(i, b.Len, true)), x.Pos(), "index in range")
		fx.assume(And(Le(fx.idx(0), i, true), Lt(i, b.Len, true)))
		elem := under(b.Typ).(*types.Slice).Elem()
		fx.setReg(fr, x, PtrV{Kind: pkElem, Base: b.Base, Idx: Add(b.Off, i), Root: elem, Typ: x.Type()})
	case PtrV:
		// pointer to array
		arr := under(typeAt(b.Root, b.Path))
		if b.Kind == pkElem && b.Cell != nil && b.Cell.Name == "$array" {
			a := under(b.Cell.Typ).(*types.Array)
			n := fx.idx(a.Len())
			fx.oblige("bounds", And(Le(fx.idx(0), i, true), Lt(i, n, true)), x.Pos(), "array index in range")
			fx.assume(And(Le(fx.idx(0), i, true), Lt(i, n, true)))
			fx.setReg(fr, x, PtrV{Kind: pkElem, Base: b.Base, Idx: i, Root: b.Root, Typ: x.Type()})
			return
		}
		a, ok := arr.(*types.Array)
		if !ok {
			panic(unsupported("IndexAddr on %s", arr))
		}
		fx.checkDeref(b, x.Pos())
		n := fx.idx(a.Len())
		fx.oblige("bounds", And(Le(fx.idx(0), i, true), Lt(i, n, true)), x.Pos(), "array index in range")
		fx.assume(And(Le(fx.idx(0), i, true), Lt(i, n, true)))
		np := b
		ii := i
		np.Path = append(append([]Step(nil), b.Path...), Step{Field: -1, Idx: &ii})
		np.Typ = x.Type()
		fx.setReg(fr, x, np)
	default:
		panic(unsupported("IndexAddr base %T", base))
	}
}

func (fx *FuncVC) execIndex(fr *frame, x *ssa.Index) {
	base := fx.val(fr, x.X)
	i := fx.toIdx(fx.val(fr, x.Index).(Sc).T, x.Index.Type())
	switch b := base.(type) {
	case StrV:
		fx.oblige("bounds", And(Le(fx.idx(0), i, true), Lt(i, b.Len, true)), x.Pos(), "string index in range")
		fx.assume(And(Le(fx.idx(0), i, true), Lt(i, b.Len, true)))
		byt := Select(Select(fx.strHeap(), b.Base), Add(b.Off, i))
		byt = fx.define(x.Name(), byt)
		if !fx.bv {
			fx.assume(And(Le(IntC(0), byt, true), Le(byt, IntC(255), true)))
		}
		fr.regs[x] = Sc{byt, x.Type()}
	case Sc:
		a := under(b.Typ).(*types.Array)
		n := fx.idx(a.Len())
		fx.oblige("bounds", And(Le(fx.idx(0), i, true), Lt(i, n, true)), x.Pos(), "array index in range")
		fx.setReg(fr, x, Sc{Select(b.T, i), a.Elem()})
	default:
		panic(unsupported("Index base %T", base))
	}
}

func (fx *FuncVC) execSlice(fr *frame, x *ssa.Slice) {
	base := fx.val(fr, x.X)
	get := func(v ssa.Value) (T, bool) {
		if v == nil {
			return T{}, false
		}
		return fx.toIdx(fx.val(fr, v).(Sc).T, v.Type()), true
	}
	lo, hasLo := get(x.Low)
	hi, hasHi := get(x.High)
	mx, hasMax := get(x.Max)
	if !hasLo {
		lo = fx.idx(0)
	}
	switch b := base.(type) {
	case SliceV:
		if !hasHi {
			hi = b.Len
		}
		limit := b.Cap
		if hasMax {
			fx.oblige("bounds", And(Le(hi, mx, true), Le(mx, b.Cap, true)), x.Pos(), "slice max in range")
			limit = mx
		}
		g := And(Le(fx.idx(0), lo, true), Le(lo, hi, true), Le(hi, limit, true))
		fx.oblige("bounds", g, x.Pos(), "slice bounds in range")
		fx.assume(g)
		fx.setReg(fr, x, SliceV{b.Base, Add(b.Off, lo), Sub(hi, lo), Sub(limit, lo), x.Type()})
	case StrV:
		if !hasHi {
			hi = b.Len
		}
		g := And(Le(fx.idx(0), lo, true), Le(lo, hi, true), Le(hi, b.Len, true))
		fx.oblige("bounds", g, x.Pos(), "string slice bounds in range")
		fx.assume(g)
		fx.setReg(fr, x, StrV{b.Base, Add(b.Off, lo), Sub(hi, lo)})
	case PtrV:
		// slice of *[N]T (backing array)
		if b.Kind == pkElem && b.Cell != nil && b.Cell.Name == "$array" {
			a := under(b.Cell.Typ).(*types.Array)
			n := fx.idx(a.Len())
			if !hasHi {
				hi = n
			}
			g := And(Le(fx.idx(0), lo, true), Le(lo, hi, true), Le(hi, n, true))
			fx.oblige("bounds", g, x.Pos(), "array slice bounds in range")
			fx.setReg(fr, x, SliceV{b.Base, lo, Sub(hi, lo), Sub(n, lo), x.Type()})
			return
		}
		panic(unsupported("slice of pointer to array field"))
	default:
		panic(unsupported("Slice base %T", base))
	}
}

func (fx *FuncVC) cellFor(instr ssa.Instruction, name string, typ types.Type) *Cell {
	if c, ok := fx.cellByInstr[instr]; ok {
		return c
	}
	a, _ := instr.(*ssa.Alloc)
	c := &Cell{Alloc: a, Name: name, Typ: typ, ID: len(fx.cellByInstr)}
	fx.cellByInstr[instr] = c
	return c
}

func (fx *FuncVC) execPhi(fr *frame, b *ssa.BasicBlock, phi *ssa.Phi, in map[edge]*State) {
	var m Val
	first := true
	for i := len(b.Preds) - 1; i >= 0; i-- {
		p := b.Preds[i]
		if isBackEdge(p, b) {
			panic(unsupported("phi with a loop-carried operand"))
		}
		st, ok := in[edge{p, b}]
		if !ok || st.dead {
			continue
		}
		v := fx.val(fr, phi.Edges[i])
		if first {
			m = v
			first = false
			continue
		}
		if !valSame(v, m) {
			m = fx.iteVal(st.pc, v, m)
		}
	}
	fx.setReg(fr, phi, m)
}
