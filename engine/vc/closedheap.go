package vc

import (
	"fmt"
	"go/types"
	"strings"
)

// closedHeapAxiom: in the entry state every pointer (and every slice's backing array) stored in
// memory refers to an object allocated before the function started (or is nil): the heap is closed
// under reachability. Stated once per reference-valued entry heap, with the select as trigger.
func (fx *FuncVC) closedHeapAxiom(name string, sort Sort, l Leaf, elemHeap bool) {
	isRef := false
	if l.Typ != nil {
		if _, ok := under(l.Typ).(*types.Pointer); ok {
			isRef = true
		}
	} else if strings.HasSuffix(l.Path, "$b") {
		isRef = true // backing array of a slice
	}
	if !isRef || fx.bv && elemHeap {
		return
	}
	key := "$closed:" + name
	if _, done := fx.declared[key]; done {
		return
	}
	if _, ok := fx.declared[name+"!0"]; !ok {
		return
	}
	fx.declared[key] = SBool
	h0 := name + "!0"
	var q string
	if elemHeap {
		q = fmt.Sprintf("(forall ((cb? Int) (cj? %s)) (! (and (<= 0 (select (select %s cb?) cj?)) (< (select (select %s cb?) cj?) %s)) :pattern ((select (select %s cb?) cj?))))",
			fx.idxSort(), h0, h0, fx.alloc0.S, h0)
	} else {
		q = fmt.Sprintf("(forall ((cr? Int)) (! (and (<= 0 (select %s cr?)) (< (select %s cr?) %s)) :pattern ((select %s cr?))))", h0, h0, fx.alloc0.S, h0)
	}
	fx.assumeRaw(T{q, SBool})
	fx.note("the entry heap is closed: every stored pointer refers to an object allocated before the call, or is nil")
	// a slice stored in memory is well formed: 0 <= off, 0 <= len <= cap, and a nil slice has no capacity
	// (opt-in with `option slice-wf`: the extra quantifiers slow unrelated proofs down noticeably)
	if fx.spec != nil && fx.spec.Options["slice-wf"] != "" && l.Typ == nil && strings.HasSuffix(l.Path, "$b") && strings.HasSuffix(name, "b") && !fx.bv {
		stem := name[:len(name)-1]
		var hs [3]string
		for i, suf := range []string{"o", "l", "c"} {
			n := stem + suf
			var srt Sort
			if elemHeap {
				srt = fx.heapSortElem(fx.idxSort())
			} else {
				srt = fx.heapSortObj(fx.idxSort())
			}
			if _, ok := fx.declared[n+"!0"]; !ok {
				fx.decls = append(fx.decls, fmt.Sprintf("(declare-const %s!0 %s)", n, srt))
				fx.declared[n+"!0"] = srt
				if fx.entry != nil {
					if _, ok := fx.entry.heaps[n]; !ok {
						fx.entry.heaps[n] = T{n + "!0", srt}
					}
				}
			}
			hs[i] = n + "!0"
		}
		sel := func(h string) string {
			if elemHeap {
				return "(select (select " + h + " cb?) cj?)"
			}
			return "(select " + h + " cr?)"
		}
		body := fmt.Sprintf("(and (<= 0 %s) (<= 0 %s) (<= %s %s) (=> (= %s 0) (= %s 0)))", sel(hs[0]), sel(hs[1]), sel(hs[1]), sel(hs[2]), sel(h0), sel(hs[2]))
		var wf string
		if elemHeap {
			wf = fmt.Sprintf("(forall ((cb? Int) (cj? %s)) (! %s :pattern (%s) :pattern (%s)))", fx.idxSort(), body, sel(hs[1]), sel(hs[2]))
		} else {
			wf = fmt.Sprintf("(forall ((cr? Int)) (! %s :pattern (%s) :pattern (%s)))", body, sel(hs[1]), sel(hs[2]))
		}
		fx.assumeRaw(T{wf, SBool})
	}
}
