package vc

import (
	"fmt"
	"go/types"
	"strings"
)

// closedHeapAxiom: in the entry state every pointer (and every slice's backing array) stored in
// memory refers to an object allocated before the function started (or is nil): the heap is closed
// under reachability. Stated once per reference-valued entry heap, with the select as trigger.
func (fx *FuncVC) closedHeapAxiom(name string, sort Sort, l Leaf, elemHeap bool) {
	isRef := false
	if l.Typ != nil {
		if _, ok := under(l.Typ).(*types.Pointer); ok {
			isRef = true
		}
	} else if strings.HasSuffix(l.Path, "$b") {
		isRef = true // backing array of a slice
	}
	if !isRef || fx.bv && elemHeap {
		return
	}
	key := "$closed:" + name
	if _, done := fx.declared[key]; done {
		return
	}
	if _, ok := fx.declared[name+"!0"]; !ok {
		return
	}
	fx.declared[key] = SBool
	h0 := name + "!0"
	var q string
	if elemHeap {
		q = fmt.Sprintf("(forall ((cb? Int) (cj? %s)) (! (and (<= 0 (select (select %s cb?) cj?)) (< (select (select %s cb?) cj?) %s)) :pattern ((select (select %s cb?) cj?))))",
			fx.idxSort(), h0, h0, fx.alloc0.S, h0)
	} else {
		q = fmt.Sprintf("(forall ((cr? Int)) (! (and (<= 0 (select %s cr?)) (< (select %s cr?) %s)) :pattern ((select %s cr?))))", h0, h0, fx.alloc0.S, h0)
	}
	fx.assumeRaw(T{q, SBool})
	fx.note("the entry heap is closed: every stored pointer refers to an object allocated before the call, or is nil")
}
