package vc

// Contract expression language: lexer, AST and Pratt parser.
//
// Go expression syntax plus: ==>, <==>, forall v in lo..hi :: body, exists v in lo..hi :: body,
// old(e), result, c ? a : b, let x = e in body.

import (
	"fmt"
	"strconv"
	"strings"
)

type Expr interface{ exprNode() }

type (
	Ident   struct{ Name string }
	IntLit  struct{ Val string } // decimal string (may be big)
	BoolLit struct{ Val bool }
	StrLit  struct{ Val string }
	Unary   struct {
		Op string // - ! ^ *
		X  Expr
	}
	Binary struct {
		Op   string
		X, Y Expr
	}
	IndexE struct{ X, I Expr }
	SliceE struct {
		X      Expr
		Lo, Hi Expr // may be nil
	}
	FieldE struct {
		X    Expr
		Name string
	}
	CallE struct {
		Fun  string
		Args []Expr
	}
	Quant struct {
		Forall bool
		Var    string
		Lo, Hi Expr
		Body   Expr
	}
	OldE  struct{ X Expr }
	CondE struct{ C, A, B Expr }
	LetE  struct {
		Var  string
		Val  Expr
		Body Expr
	}
)

func (*Ident) exprNode()   {}
func (*IntLit) exprNode()  {}
func (*BoolLit) exprNode() {}
func (*StrLit) exprNode()  {}
func (*Unary) exprNode()   {}
func (*Binary) exprNode()  {}
func (*IndexE) exprNode()  {}
func (*SliceE) exprNode()  {}
func (*FieldE) exprNode()  {}
func (*CallE) exprNode()   {}
func (*Quant) exprNode()   {}
func (*OldE) exprNode()    {}
func (*CondE) exprNode()   {}
func (*LetE) exprNode()    {}

type tok struct {
	kind string // id int str op eof
	text string
	pos  int
}

func lexExpr(s string) ([]tok, error) {
	var out []tok
	i := 0
	ops := []string{"<==>", "==>", "&&", "||", "==", "!=", "<=", ">=", "<<", ">>", "&^", "..", "::",
		"+", "-", "*", "/", "%", "&", "|", "^", "<", ">", "!", ".", "[", "]", "(", ")", ",", ":", "?", "=", "@", "#"}
	for i < len(s) {
		c := s[i]
		switch {
		case c == ' ' || c == '\t' || c == '\n':
			i++
		case c == '/' && i+1 < len(s) && s[i+1] == '/':
			// comment to end of line
			for i < len(s) && s[i] != '\n' {
				i++
			}
		case c >= '0' && c <= '9':
			j := i
			if c == '0' && j+1 < len(s) && (s[j+1] == 'x' || s[j+1] == 'X') {
				j += 2
				for j < len(s) && strings.ContainsRune("0123456789abcdefABCDEF_", rune(s[j])) {
					j++
				}
			} else {
				for j < len(s) && (s[j] >= '0' && s[j] <= '9' || s[j] == '_') {
					j++
				}
			}
			out = append(out, tok{"int", strings.ReplaceAll(s[i:j], "_", ""), i})
			i = j
		case c == '_' || c >= 'a' && c <= 'z' || c >= 'A' && c <= 'Z' || c == '@' || c == '$':
			j := i + 1
			for j < len(s) && (s[j] == '_' || s[j] >= 'a' && s[j] <= 'z' || s[j] >= 'A' && s[j] <= 'Z' || s[j] >= '0' && s[j] <= '9' || s[j] == '#' || s[j] == '$') {
				j++
			}
			out = append(out, tok{"id", s[i:j], i})
			i = j
		case c == '\'':
			j := i + 1
			for j < len(s) && s[j] != '\'' {
				if s[j] == '\\' {
					j++
				}
				j++
			}
			if j >= len(s) {
				return nil, fmt.Errorf("unterminated rune literal at %d", i)
			}
			r, _, _, err := strconv.UnquoteChar(s[i+1:j], '\'')
			if err != nil {
				return nil, fmt.Errorf("bad rune literal %s", s[i:j+1])
			}
			out = append(out, tok{"int", strconv.Itoa(int(r)), i})
			i = j + 1
		case c == '"':
			j := i + 1
			for j < len(s) && s[j] != '"' {
				if s[j] == '\\' {
					j++
				}
				j++
			}
			if j >= len(s) {
				return nil, fmt.Errorf("unterminated string literal at %d", i)
			}
			v, err := strconv.Unquote(s[i : j+1])
			if err != nil {
				return nil, err
			}
			out = append(out, tok{"str", v, i})
			i = j + 1
		default:
			found := false
			for _, op := range ops {
				if strings.HasPrefix(s[i:], op) {
					out = append(out, tok{"op", op, i})
					i += len(op)
					found = true
					break
				}
			}
			if !found {
				return nil, fmt.Errorf("unexpected character %q at %d in %q", c, i, s)
			}
		}
	}
	out = append(out, tok{"eof", "", len(s)})
	return out, nil
}

type eparser struct {
	toks []tok
	p    int
	src  string
}

func ParseExpr(s string) (e Expr, err error) {
	toks, err := lexExpr(s)
	if err != nil {
		return nil, err
	}
	p := &eparser{toks: toks, src: s}
	defer func() {
		if r := recover(); r != nil {
			if pe, ok := r.(parseErr); ok {
				err = fmt.Errorf("%s in %q", string(pe), s)
				return
			}
			panic(r)
		}
	}()
	e = p.expr(0)
	if p.cur().kind != "eof" {
		p.fail("unexpected %q", p.cur().text)
	}
	return e, nil
}

type parseErr string

func (p *eparser) fail(f string, a ...interface{}) {
	panic(parseErr(fmt.Sprintf("parse error at %d: ", p.cur().pos) + fmt.Sprintf(f, a...)))
}
func (p *eparser) cur() tok  { return p.toks[p.p] }
func (p *eparser) next() tok { t := p.toks[p.p]; p.p++; return t }
func (p *eparser) isOp(s string) bool {
	return p.cur().kind == "op" && p.cur().text == s
}
func (p *eparser) isKw(s string) bool {
	return p.cur().kind == "id" && p.cur().text == s
}
func (p *eparser) expectOp(s string) {
	if !p.isOp(s) {
		p.fail("expected %q, found %q", s, p.cur().text)
	}
	p.p++
}

// binding powers (left).
var binPrec = map[string]int{
	"<==>": 1, "==>": 2, "?": 3, "||": 4, "&&": 5,
	"==": 6, "!=": 6, "<": 6, "<=": 6, ">": 6, ">=": 6,
	"+": 7, "-": 7, "|": 7, "^": 7,
	"*": 8, "/": 8, "%": 8, "<<": 8, ">>": 8, "&": 8, "&^": 8,
}

func (p *eparser) expr(minPrec int) Expr {
	lhs := p.unary()
	for {
		t := p.cur()
		if t.kind != "op" {
			return lhs
		}
		prec, ok := binPrec[t.text]
		if !ok || prec < minPrec {
			return lhs
		}
		p.p++
		switch t.text {
		case "==>":
			// right associative
			rhs := p.expr(prec)
			lhs = &Binary{"==>", lhs, rhs}
		case "?":
			a := p.expr(prec + 1)
			p.expectOp(":")
			b := p.expr(prec)
			lhs = &CondE{lhs, a, b}
		default:
			rhs := p.expr(prec + 1)
			lhs = &Binary{t.text, lhs, rhs}
		}
	}
}

func (p *eparser) unary() Expr {
	t := p.cur()
	if t.kind == "op" {
		switch t.text {
		case "-", "!", "^", "*":
			p.p++
			x := p.unary()
			if t.text == "-" {
				if il, ok := x.(*IntLit); ok && !strings.HasPrefix(il.Val, "-") {
					return &IntLit{"-" + il.Val}
				}
			}
			return &Unary{t.text, x}
		case "+":
			p.p++
			return p.unary()
		}
	}
	if t.kind == "id" && (t.text == "forall" || t.text == "exists") {
		p.p++
		v := p.next()
		if v.kind != "id" {
			p.fail("expected bound variable")
		}
		if !p.isKw("in") {
			p.fail("expected 'in'")
		}
		p.p++
		lo := p.expr(7) // arithmetic level, so '..' terminates
		p.expectOp("..")
		hi := p.expr(7)
		p.expectOp("::")
		body := p.expr(0)
		return &Quant{t.text == "forall", v.text, lo, hi, body}
	}
	if t.kind == "id" && t.text == "let" {
		p.p++
		v := p.next()
		p.expectOp("=")
		val := p.expr(3)
		if !p.isKw("in") {
			p.fail("expected 'in' after let")
		}
		p.p++
		body := p.expr(0)
		return &LetE{v.text, val, body}
	}
	return p.postfix(p.primary())
}

func (p *eparser) primary() Expr {
	t := p.next()
	switch t.kind {
	case "int":
		if strings.HasPrefix(t.text, "0x") || strings.HasPrefix(t.text, "0X") {
			v, err := strconv.ParseUint(t.text[2:], 16, 64)
			if err != nil {
				p.fail("bad hex literal %s", t.text)
			}
			return &IntLit{strconv.FormatUint(v, 10)}
		}
		return &IntLit{t.text}
	case "str":
		return &StrLit{t.text}
	case "id":
		switch t.text {
		case "true":
			return &BoolLit{true}
		case "false":
			return &BoolLit{false}
		case "old":
			p.expectOp("(")
			x := p.expr(0)
			p.expectOp(")")
			return &OldE{x}
		}
		if p.isOp("(") {
			p.p++
			var args []Expr
			for !p.isOp(")") {
				args = append(args, p.expr(0))
				if p.isOp(",") {
					p.p++
				} else {
					break
				}
			}
			p.expectOp(")")
			return &CallE{t.text, args}
		}
		return &Ident{t.text}
	case "op":
		if t.text == "(" {
			x := p.expr(0)
			p.expectOp(")")
			return x
		}
	}
	p.p--
	p.fail("unexpected %q", t.text)
	return nil
}

func (p *eparser) postfix(x Expr) Expr {
	for {
		switch {
		case p.isOp("."):
			p.p++
			n := p.next()
			if n.kind != "id" {
				p.fail("expected field name")
			}
			if p.isOp("(") { // method-style spec call: x.f(args) == f(x, args)
				p.p++
				args := []Expr{x}
				for !p.isOp(")") {
					args = append(args, p.expr(0))
					if p.isOp(",") {
						p.p++
					} else {
						break
					}
				}
				p.expectOp(")")
				x = &CallE{n.text, args}
			} else {
				x = &FieldE{x, n.text}
			}
		case p.isOp("["):
			p.p++
			var lo, hi Expr
			if p.isOp(":") {
				p.p++
				if !p.isOp("]") {
					hi = p.expr(0)
				}
				p.expectOp("]")
				x = &SliceE{x, nil, hi}
				continue
			}
			lo = p.expr(0)
			if p.isOp(":") {
				p.p++
				if !p.isOp("]") {
					hi = p.expr(0)
				}
				p.expectOp("]")
				x = &SliceE{x, lo, hi}
				continue
			}
			p.expectOp("]")
			x = &IndexE{x, lo}
		default:
			return x
		}
	}
}

// ExprString prints an expression back (used in obligation names and messages).
func ExprString(e Expr) string {
	switch e := e.(type) {
	case *Ident:
		return e.Name
	case *IntLit:
		return e.Val
	case *BoolLit:
		return fmt.Sprint(e.Val)
	case *StrLit:
		return strconv.Quote(e.Val)
	case *Unary:
		return e.Op + ExprString(e.X)
	case *Binary:
		return "(" + ExprString(e.X) + " " + e.Op + " " + ExprString(e.Y) + ")"
	case *IndexE:
		return ExprString(e.X) + "[" + ExprString(e.I) + "]"
	case *SliceE:
		s := ExprString(e.X) + "["
		if e.Lo != nil {
			s += ExprString(e.Lo)
		}
		s += ":"
		if e.Hi != nil {
			s += ExprString(e.Hi)
		}
		return s + "]"
	case *FieldE:
		return ExprString(e.X) + "." + e.Name
	case *CallE:
		var a []string
		for _, x := range e.Args {
			a = append(a, ExprString(x))
		}
		return e.Fun + "(" + strings.Join(a, ", ") + ")"
	case *Quant:
		k := "exists"
		if e.Forall {
			k = "forall"
		}
		return "(" + k + " " + e.Var + " in " + ExprString(e.Lo) + ".." + ExprString(e.Hi) + " :: " + ExprString(e.Body) + ")"
	case *OldE:
		return "old(" + ExprString(e.X) + ")"
	case *CondE:
		return "(" + ExprString(e.C) + " ? " + ExprString(e.A) + " : " + ExprString(e.B) + ")"
	case *LetE:
		return "(let " + e.Var + " = " + ExprString(e.Val) + " in " + ExprString(e.Body) + ")"
	}
	return "?"
}

// conjuncts splits a top-level && chain (rule R3: one obligation per conjunct).
func conjuncts(e Expr) []Expr {
	if b, ok := e.(*Binary); ok && b.Op == "&&" {
		return append(conjuncts(b.X), conjuncts(b.Y)...)
	}
	return []Expr{e}
}
