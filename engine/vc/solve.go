package vc

import (
	"bytes"
	"context"
	"fmt"
	"os"
	"os/exec"
	"path/filepath"
	"strings"
	"sync"
	"time"
)

type ObResult struct {
	Name     string  `json:"name"`
	Kind     string  `json:"kind"`
	Func     string  `json:"func"`
	Pos      string  `json:"pos"`
	Text     string  `json:"text"`
	Status   string  `json:"status"` // discharged | refuted | unknown | cover-ok | cover-unknown | cover-failed
	Solver   string  `json:"solver"`
	Ms       float64 `json:"ms"`
	Model    string  `json:"model,omitempty"`
	Output   string  `json:"output,omitempty"`
	Query    string  `json:"-"`
	QueryLen int     `json:"query_bytes"`
}

type solverSpec struct {
	name string
	args func(file string, sec int) []string
}

var solvers = []solverSpec{
	{"z3-new", func(f string, sec int) []string { return []string{"z3-new", fmt.Sprintf("-T:%d", sec), f} }},
	{"z3", func(f string, sec int) []string { return []string{"z3", fmt.Sprintf("-T:%d", sec), f} }},
	{"cvc5", func(f string, sec int) []string {
		return []string{"cvc5", fmt.Sprintf("--tlimit=%d", sec*1000), "--produce-models", f}
	}},
}

type runOut struct {
	solver  string
	verdict string
	out     string
	ms      float64
}

func runSolver(ctx context.Context, s solverSpec, file string, sec int) runOut {
	t0 := time.Now()
	args := s.args(file, sec)
	cctx, cancel := context.WithTimeout(ctx, time.Duration(sec+2)*time.Second)
	defer cancel()
	cmd := exec.CommandContext(cctx, args[0], args[1:]...)
	var buf bytes.Buffer
	cmd.Stdout = &buf
	cmd.Stderr = &buf
	cmd.Run()
	out := buf.String()
	first := strings.TrimSpace(strings.SplitN(out, "\n", 2)[0])
	v := "unknown"
	switch first {
	case "unsat":
		v = "unsat"
	case "sat":
		v = "sat"
	case "timeout", "unknown":
		v = "unknown"
	default:
		if strings.Contains(first, "error") || strings.Contains(out, "(error") {
			v = "error"
		}
	}
	return runOut{s.name, v, out, float64(time.Since(t0).Microseconds()) / 1000}
}

// Discharge runs the solver portfolio on every obligation.
func Discharge(obls []*Obligation, tmpDir string, timeoutSec int, workers int, keepQueries bool) []*ObResult {
	results := make([]*ObResult, len(obls))
	var wg sync.WaitGroup
	sem := make(chan struct{}, workers)
	for i, o := range obls {
		wg.Add(1)
		go func(i int, o *Obligation) {
			defer wg.Done()
			sem <- struct{}{}
			defer func() { <-sem }()
			results[i] = dischargeOne(o, tmpDir, i, timeoutSec, keepQueries)
		}(i, o)
	}
	wg.Wait()
	return results
}

func dischargeOne(o *Obligation, tmpDir string, idx int, timeoutSec int, keep bool) *ObResult {
	if o.Decided != nil {
		return o.Decided
	}
	r := &ObResult{Name: o.Name, Kind: o.Kind, Func: o.Func, Pos: o.Pos, Text: o.Text}
	want := "unsat"
	if o.Expect == "sat" {
		want = "sat"
	}
	// trivial goals
	if want == "unsat" && (o.Goal.S == "true" || o.PC.S == "false") {
		r.Status, r.Solver = "discharged", "trivial"
		return r
	}
	q := o.Query(true)
	r.QueryLen = len(q)
	file := filepath.Join(tmpDir, fmt.Sprintf("q%05d.smt2", idx))
	if err := os.WriteFile(file, []byte(q), 0o644); err != nil {
		r.Status, r.Output = "unknown", err.Error()
		return r
	}
	if !keep {
		defer os.Remove(file)
	}
	if keep {
		r.Query = file
	}
	ctx := context.Background()
	decide := func(ro runOut) bool {
		switch {
		case ro.verdict == "unsat" && want == "unsat":
			r.Status, r.Solver, r.Ms = "discharged", ro.solver, ro.ms
			return true
		case ro.verdict == "sat" && want == "unsat":
			r.Status, r.Solver, r.Ms, r.Model = "refuted", ro.solver, ro.ms, ro.out
			return true
		case ro.verdict == "sat" && want == "sat":
			r.Status, r.Solver, r.Ms = "cover-ok", ro.solver, ro.ms
			return true
		case ro.verdict == "unsat" && want == "sat":
			r.Status, r.Solver, r.Ms = "cover-failed", ro.solver, ro.ms
			return true
		}
		return false
	}
	// Stage 1: newest z3 alone, short limit.
	short := 3
	if short > timeoutSec {
		short = timeoutSec
	}
	ro := runSolver(ctx, solvers[0], file, short)
	if decide(ro) {
		if r.Status == "refuted" && hasQuantifier(q) {
			// sat on a quantified query may be an incomplete-instantiation artefact only for "unknown";
			// z3 reports sat only with a model, keep it.
		}
		return r
	}
	if want == "sat" {
		// covers are best-effort: an inconclusive answer is recorded, not failed
		if len(o.fx.defAx) > 0 {
			f2 := file + ".nodefs.smt2"
			if err := os.WriteFile(f2, []byte(o.QueryNoDefs()), 0o644); err == nil {
				r2 := runSolver(ctx, solvers[0], f2, short)
				os.Remove(f2)
				if r2.verdict == "sat" {
					r.Status, r.Solver, r.Ms = "cover-ok", r2.solver+" (quantified definitional axioms dropped)", ro.ms+r2.ms
					return r
				}
			}
		}
		// a second opinion: an inconsistency in the assumptions (a vacuous proof) is what the cover is
		// there to find, so the other two solvers get a few seconds to refute the path as well
		cctx2, cancel2 := context.WithCancel(ctx)
		ch2 := make(chan runOut, 2)
		for _, s := range solvers[1:] {
			go func(s solverSpec) { ch2 <- runSolver(cctx2, s, file, 5) }(s)
		}
		for range solvers[1:] {
			r2 := <-ch2
			if decide(r2) {
				cancel2()
				return r
			}
		}
		cancel2()
		r.Status, r.Solver, r.Ms, r.Output = "cover-unknown", ro.solver, ro.ms, firstLine(ro.out)
		return r
	}
	// Stage 2: race all three at the full limit.
	cctx, cancel := context.WithCancel(ctx)
	defer cancel()
	ch := make(chan runOut, len(solvers))
	for _, s := range solvers {
		go func(s solverSpec) { ch <- runSolver(cctx, s, file, timeoutSec) }(s)
	}
	var outs []string
	for range solvers {
		ro := <-ch
		if decide(ro) {
			cancel()
			return r
		}
		outs = append(outs, ro.solver+": "+firstLine(ro.out))
		r.Ms += ro.ms
	}
	r.Status = "unknown"
	r.Output = strings.Join(outs, "; ")
	return r
}

func firstLine(s string) string {
	s = strings.TrimSpace(s)
	if i := strings.Index(s, "\n"); i >= 0 {
		s = s[:i]
	}
	if len(s) > 200 {
		s = s[:200]
	}
	return s
}

func hasQuantifier(q string) bool {
	return strings.Contains(q, "(forall ") || strings.Contains(q, "(exists ")
}
