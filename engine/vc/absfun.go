package vc

// `bvfun name(params) T = body`: a spec function about machine-level bit patterns. In mode bv it is
// unfolded like any spec function. In mode int (where bit operations have no arithmetic meaning) it is
// an ABSTRACT function symbol: an uninterpreted function of its scalar arguments and, for slice
// arguments, of the slice's backing row, offset and length. A mode-int caller therefore sees a
// mode-bv callee only through its contract, with the bit-level view as an opaque function of the
// memory it talks about (DESIGN.md 2.3). Nothing is assumed about it beyond functionality.

import (
	"fmt"
	"go/types"
)

func (e *Env) callAbstract(ps *PredSpec, x *CallE) Val {
	fx := e.fx
	var terms []T
	var sorts []Sort
	for _, a := range x.Args {
		v := e.eval(a)
		if p, ok := v.(PtrV); ok && p.Kind != pkHeap {
			v = fx.loadPtr(e.st, p)
		}
		switch s := v.(type) {
		case Sc:
			terms = append(terms, s.T)
			sorts = append(sorts, s.T.Sort)
		case SliceV:
			elem := under(s.Typ).(*types.Slice).Elem()
			for _, l := range fx.leavesOf(elem) {
				h := fx.heap(e.st, elemHeapName(elem, l.Path), fx.heapSortElem(l.Sort))
				row := Select(h, s.Base)
				terms = append(terms, row)
				sorts = append(sorts, row.Sort)
			}
			terms = append(terms, s.Off, s.Len)
			sorts = append(sorts, s.Off.Sort, s.Len.Sort)
		default:
			cfail("%s: argument kind not supported for an abstract (bvfun) spec function in mode int", ps.Name)
		}
	}
	ret := SBool
	if ps.Ret != "bool" {
		ret = SInt
	}
	name := "abs_" + sanitize(ps.Name)
	fx.declareFun(name, sorts, ret)
	fx.note(fmt.Sprintf("spec function %s is bit-level (bvfun): abstract (uninterpreted over the memory it reads) in this mode-int function", ps.Name))
	t := app(name, ret, terms...)
	if e.pats != nil {
		// the application is the natural trigger of an enclosing quantifier over one of its arguments
		*e.pats = append(*e.pats, t.S)
	}
	if ret == SBool {
		return Sc{t, types.Typ[types.Bool]}
	}
	return Sc{t, types.Typ[types.Int]}
}
