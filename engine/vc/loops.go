package vc

import (
	"fmt"
	"go/token"
	"go/types"
	"sort"
	"strings"

	"golang.org/x/tools/go/ssa"
)

// cellLookup resolves a source-level variable name at a loop to the current value of its cell.
func (fx *FuncVC) cellLookup(fr *frame, li *loopInfo, st *State) func(string) (Val, bool) {
	return func(name string) (Val, bool) {
		if strings.HasPrefix(name, "@i") {
			// hidden range index: the rangeindex cell read by the loop header (@i<k>: of loop k)
			hli := li
			if len(name) > 2 {
				var k int
				fmt.Sscanf(name[2:], "%d", &k)
				hli = nil
				for _, l := range fr.loops {
					if l.ordinal == k {
						hli = l
					}
				}
				if hli == nil {
					cfail("%s: no loop %d", name, k)
				}
			}
			for _, in := range hli.header.Instrs {
				if n, ok := in.(*ssa.Next); ok && n.IsString {
					// range over a string: @i is the byte offset of the next rune to decode
					if rg, ok := n.Iter.(*ssa.Range); ok {
						if c := fx.cellByInstr[rg]; c != nil {
							if v, ok := st.cells[c]; ok {
								return v.(Sc), true
							}
						}
					}
				}
				if u, ok := in.(*ssa.UnOp); ok && u.Op == token.MUL {
					if a, ok := u.X.(*ssa.Alloc); ok && a.Comment == "rangeindex" {
						if c := fr.cells[a]; c != nil {
							if v, ok := st.cells[c]; ok {
								sc := v.(Sc)
								if hli != li {
									// inside the body of loop k the cell holds the current index
									return sc, true
								}
								return Sc{Add(sc.T, fx.idx(1)), sc.Typ}, true
							}
						}
					}
				}
			}
			cfail("@i used in a loop that is not a range loop over a slice/string/int")
		}
		// explicit ordinal: name#k = k-th alloc with that name (1-based, source order)
		want := 0
		base := name
		if i := strings.Index(name, "#"); i > 0 {
			fmt.Sscanf(name[i+1:], "%d", &want)
			base = name[:i]
		}
		var cands []*ssa.Alloc
		for a := range fr.cells {
			if a.Comment == base {
				cands = append(cands, a)
			}
		}
		if len(cands) == 0 {
			// a closure: variables captured from the enclosing function (free variables are pointers
			// to the enclosing function's cells) and the closure's own parameters
			for i, fv := range fr.fn.FreeVars {
				if fv.Name() == base && i < len(fr.bind) {
					if p, ok := fr.bind[i].(PtrV); ok {
						return fx.loadPtr(st, p), true
					}
					return fr.bind[i], true
				}
			}
			for i, p := range fr.fn.Params {
				if p.Name() == base && i < len(fr.params) {
					return fr.params[i], true
				}
			}
			return nil, false
		}
		sort.Slice(cands, func(i, j int) bool { return cands[i].Pos() < cands[j].Pos() })
		var pick *ssa.Alloc
		if want > 0 {
			if want > len(cands) {
				cfail("%s: only %d variables named %s", name, len(cands), base)
			}
			pick = cands[want-1]
		} else if len(cands) == 1 {
			pick = cands[0]
		} else {
			// scope-based: innermost declaration visible at the loop position
			pick = fx.scopePick(fr, li, base, cands)
		}
		if pick == nil {
			return nil, false
		}
		v, ok := st.cells[fr.cells[pick]]
		if !ok {
			cfail("variable %s is not live at loop %d", name, li.ordinal)
		}
		return v, true
	}
}

func (fx *FuncVC) scopePick(fr *frame, li *loopInfo, name string, cands []*ssa.Alloc) *ssa.Alloc {
	pkg := fr.fn.Pkg
	if pkg == nil && fr.fn.Parent() != nil {
		pkg = fr.fn.Parent().Pkg
	}
	if pkg != nil && li.minPos.IsValid() {
		if sc := pkg.Pkg.Scope().Innermost(li.minPos); sc != nil {
			if _, obj := sc.LookupParent(name, li.minPos); obj != nil {
				for _, a := range cands {
					if a.Pos() == obj.Pos() {
						return a
					}
				}
			}
		}
	}
	// fall back: the latest declaration before the loop
	var best *ssa.Alloc
	for _, a := range cands {
		if a.Pos() < li.minPos && (best == nil || a.Pos() > best.Pos()) {
			best = a
		}
	}
	if best == nil {
		best = cands[0]
	}
	return best
}

func (fx *FuncVC) loopEnv(fr *frame, li *loopInfo, st *State) *Env {
	env := &Env{fx: fx, st: st, vars: map[string]Val{}, pkg: fx.specPkgOf(fr), old: fx.oldEnv(fr)}
	env.lookup = fx.cellLookup(fr, li, st)
	return env
}

func (fx *FuncVC) specPkgOf(fr *frame) *PkgInfo {
	fn := fr.fn
	for fn.Parent() != nil {
		fn = fn.Parent()
	}
	if fn.Pkg != nil {
		if p := fx.eng.pkgInfo(fn.Pkg.Pkg.Path()); p != nil {
			return p
		}
	}
	return fx.pkg
}

// oldEnv gives the environment for old(): entry heaps and entry parameter values.
func (fx *FuncVC) oldEnv(fr *frame) *Env {
	if !fr.top {
		// inlined bodies: old() refers to the enclosing verified function's entry
	}
	e := &Env{fx: fx, st: fx.entry, vars: map[string]Val{}, pkg: fx.pkg}
	for k, v := range fx.paramEntry {
		e.vars[k] = v
	}
	return e
}

// loopHead: check invariants on entry, havoc what the loop modifies, assume invariants.
func (fx *FuncVC) loopHead(fr *frame, li *loopInfo) {
	pos := li.minPos
	var invs []*Clause
	if li.spec != nil {
		invs = li.spec.Invariants
	}
	if li.spec == nil && fr.spec != nil && !fr.spec.Inline {
		fx.note(fmt.Sprintf("loop %d of %s has no invariant (only its exit condition is known after it)", li.ordinal, fr.fn.Name()))
	}
	// 1. invariants hold on entry
	env := fx.loopEnv(fr, li, fx.st)
	for _, inv := range invs {
		for _, cj := range conjuncts(inv.E) {
			g := fx.evalBool(env, cj, inv)
			fx.oblige("inv-init", g, pos, fmt.Sprintf("loop %d invariant holds on entry: %s", li.ordinal, ExprString(cj)))
		}
	}
	// 2. havoc
	hs := fx.havoc[li.header]
	pre := fx.st.clone()
	if hs != nil {
		// the allocation frontier first: the well-formedness of the havocked variables below ("a
		// slice or pointer refers to something already allocated") must be relative to the frontier
		// at the loop head, not to the one before the loop
		if hs.alloc {
			na := fx.fresh("alloc", SInt)
			fx.assume(Le(fx.st.alloc, na, true))
			fx.st.alloc = na
		}
		// cells
		var cells []*Cell
		for c := range hs.cells {
			cells = append(cells, c)
		}
		sort.Slice(cells, func(i, j int) bool { return cells[i].ID < cells[j].ID })
		for _, c := range cells {
			if _, live := fx.st.cells[c]; !live {
				continue
			}
			fx.st.cells[c] = fx.freshCellVal(c)
		}
		heaps := map[string]Sort{}
		for n := range hs.heaps {
			if h, ok := fx.st.heaps[n]; ok {
				heaps[n] = h.Sort
			} else if s, ok := fx.declared[n+"!0"]; ok {
				heaps[n] = s
			}
		}
		// Frame across the loop: locations outside the function frame that existed at function
		// entry keep their entry contents.
		fx.havocHeapsLoop(heaps, pre)
	}
	// 3. assume invariants in the havocked state
	env2 := fx.loopEnv(fr, li, fx.st)
	for _, inv := range invs {
		fx.assume(fx.evalBool(env2, inv.E, inv))
	}
	// reachability of the loop body is covered by the generic reach check at the head
	fx.cover("reach", pos, fmt.Sprintf("loop %d head is reachable with its invariants", li.ordinal))
	if li.spec != nil && li.spec.Decreases != nil {
		li.decr = env2.intT(li.spec.Decreases.E)
		li.decr = fx.define("variant", li.decr)
		li.hasDecr = true
	}
}

func (fx *FuncVC) freshCellVal(c *Cell) Val {
	if p, ok := under(c.Typ).(*types.Pointer); ok {
		_ = p
	}
	return fx.freshVal(c.Typ, c.Name)
}

// havocHeapsLoop havocs heaps at a loop head. Unchanged: every location that existed at function
// entry and is outside the function's modifies frame (relative to the entry heap).
func (fx *FuncVC) havocHeapsLoop(heaps map[string]Sort, pre *State) {
	var names []string
	for n := range heaps {
		names = append(names, n)
	}
	sortStrings(names)
	for _, n := range names {
		s := heaps[n]
		nh := fx.fresh(n, s)
		entryH := fx.heap(fx.entry, n, s)
		fx.frameAxiom(n, entryH, nh, fx.frameRegions(), fx.alloc0)
		fx.st.heaps[n] = nh
		// outer loops see this heap as modified too
		for _, hs := range fx.active {
			if !hs.heaps[n] {
				hs.heaps[n] = true
				fx.dirty = true
			}
		}
	}
}

// loopBack: the state at a back edge must re-establish the invariants and decrease the variant.
func (fx *FuncVC) loopBack(fr *frame, li *loopInfo, from *ssa.BasicBlock) {
	pos := li.minPos
	if li.spec == nil {
		return
	}
	env := fx.loopEnv(fr, li, fx.st)
	for _, inv := range li.spec.Invariants {
		for _, cj := range conjuncts(inv.E) {
			g := fx.evalBool(env, cj, inv)
			fx.oblige("inv-keep", g, pos, fmt.Sprintf("loop %d invariant is preserved: %s", li.ordinal, ExprString(cj)))
		}
	}
	if li.hasDecr {
		d := env.intT(li.spec.Decreases.E)
		fx.oblige("decreases", And(Le(fx.idx(0), li.decr, true), Lt(d, li.decr, true)), pos, fmt.Sprintf("loop %d variant decreases and is bounded", li.ordinal))
	}
}
