package vc

// Replay support: (1) decoding the entry state of a solver model into concrete Go values, (2)
// generating the in-package driver that hands the real functions to the executable contract
// back end (harness/rtc). Nothing here is trusted: a decoded input only counts when the real
// function, run on it, violates its executable contract.

import (
	"bufio"
	"fmt"
	"go/constant"
	"go/types"
	"io"
	"math/big"
	"os/exec"
	"sort"
	"strconv"
	"strings"
	"time"

	"golang.org/x/tools/go/ssa"
)

// ---- JSON shapes shared with harness/rtc ----

type VJ struct {
	K   string         `json:"k"`
	I   string         `json:"i,omitempty"`
	B   bool           `json:"b,omitempty"`
	S   []byte         `json:"s,omitempty"`
	Arr string         `json:"arr,omitempty"`
	Off int            `json:"off,omitempty"`
	Len int            `json:"len,omitempty"`
	Cap int            `json:"cap,omitempty"`
	F   map[string]*VJ `json:"f,omitempty"`
	Ref string         `json:"ref,omitempty"`
	E   []*VJ          `json:"e,omitempty"`
}

type ReplayInput struct {
	Obligation string           `json:"obligation"`
	Args       []*VJ            `json:"args"`
	Arrays     map[string][]*VJ `json:"arrays"`
	Objs       map[string]*VJ   `json:"objs"`
	Approx     []string         `json:"approx,omitempty"`
	Verdict    string           `json:"solver_verdict"` // sat | unknown (candidate model)
}

// ---- an interactive solver session ----

type session struct {
	cmd *exec.Cmd
	in  io.WriteCloser
	out *bufio.Reader
}

func startSession() (*session, error) {
	cmd := exec.Command("z3-new", "-in", "-smt2")
	in, err := cmd.StdinPipe()
	if err != nil {
		return nil, err
	}
	out, err := cmd.StdoutPipe()
	if err != nil {
		return nil, err
	}
	cmd.Stderr = nil
	if err := cmd.Start(); err != nil {
		return nil, err
	}
	return &session{cmd, in, bufio.NewReaderSize(out, 1<<20)}, nil
}

func (s *session) close() {
	s.in.Close()
	done := make(chan struct{})
	go func() { s.cmd.Wait(); close(done) }()
	select {
	case <-done:
	case <-time.After(2 * time.Second):
		s.cmd.Process.Kill()
	}
}

func (s *session) send(text string) error {
	_, err := io.WriteString(s.in, text+"\n")
	return err
}

// readSexp reads one balanced s-expression or atom line.
func (s *session) readSexp(timeout time.Duration) (string, error) {
	type res struct {
		s   string
		err error
	}
	ch := make(chan res, 1)
	go func() {
		var b strings.Builder
		depth := 0
		started := false
		inStr := false
		for {
			c, err := s.out.ReadByte()
			if err != nil {
				ch <- res{b.String(), err}
				return
			}
			if !started && (c == ' ' || c == '\n' || c == '\t' || c == '\r') {
				continue
			}
			started = true
			b.WriteByte(c)
			if inStr {
				if c == '"' {
					inStr = false
				}
				continue
			}
			switch c {
			case '"':
				inStr = true
			case '(':
				depth++
			case ')':
				depth--
				if depth == 0 {
					ch <- res{b.String(), nil}
					return
				}
			case '\n':
				if depth == 0 {
					ch <- res{strings.TrimSpace(b.String()), nil}
					return
				}
			}
		}
	}()
	select {
	case r := <-ch:
		return r.s, r.err
	case <-time.After(timeout):
		s.cmd.Process.Kill()
		return "", fmt.Errorf("solver session timed out")
	}
}

// ---- model decoding ----

type decoder struct {
	fx     *FuncVC
	s      *session
	nSent  int // number of fx.decls already sent
	in     *ReplayInput
	cache  map[string]string
	slices map[string][]*VJ // array key -> slice values referring to it (absolute offsets until finalize)
	elems  map[string]map[int]*VJ
	etype  map[string]types.Type
	abase  map[string]int64
	budget int
}

type decodeErr string

func dfail(f string, a ...any) { panic(decodeErr(fmt.Sprintf(f, a...))) }

func (d *decoder) sync() {
	for ; d.nSent < len(d.fx.decls); d.nSent++ {
		d.s.send(d.fx.decls[d.nSent])
	}
}

func (d *decoder) get(t T) string {
	if v, ok := d.cache[t.S]; ok {
		return v
	}
	d.budget--
	if d.budget < 0 {
		dfail("model too large to decode")
	}
	d.sync()
	d.s.send("(get-value (" + t.S + "))")
	r, err := d.s.readSexp(10 * time.Second)
	if err != nil {
		dfail("solver: %v", err)
	}
	if strings.HasPrefix(r, "(error") {
		dfail("solver: %s", r)
	}
	// ((term value))
	r = strings.TrimSpace(r)
	if !strings.HasPrefix(r, "((") {
		dfail("unexpected get-value answer %q", r)
	}
	inner := r[2 : len(r)-2]
	// the value is the last s-expression of inner
	val := lastSexp(inner)
	d.cache[t.S] = val
	return val
}

func lastSexp(s string) string {
	s = strings.TrimSpace(s)
	if strings.HasSuffix(s, ")") {
		depth := 0
		for i := len(s) - 1; i >= 0; i-- {
			switch s[i] {
			case ')':
				depth++
			case '(':
				depth--
				if depth == 0 {
					return s[i:]
				}
			}
		}
	}
	if i := strings.LastIndexAny(s, " \n\t"); i >= 0 {
		return s[i+1:]
	}
	return s
}

// intVal parses an SMT numeral / bit-vector value; signed says how to read bit-vectors.
func parseSMTInt(v string, signed bool) (*big.Int, bool) {
	v = strings.TrimSpace(v)
	if strings.HasPrefix(v, "(-") {
		inner := strings.TrimSpace(strings.TrimSuffix(strings.TrimPrefix(v, "(-"), ")"))
		n, ok := new(big.Int).SetString(inner, 10)
		if !ok {
			return nil, false
		}
		return n.Neg(n), true
	}
	if strings.HasPrefix(v, "#x") || strings.HasPrefix(v, "#b") {
		base, width := 16, (len(v)-2)*4
		if v[1] == 'b' {
			base, width = 2, len(v)-2
		}
		n, ok := new(big.Int).SetString(v[2:], base)
		if !ok {
			return nil, false
		}
		if signed && n.Bit(width-1) == 1 {
			n.Sub(n, pow2(uint(width)))
		}
		return n, true
	}
	n, ok := new(big.Int).SetString(v, 10)
	return n, ok
}

func (d *decoder) int(t T, signed bool) int64 {
	n, ok := parseSMTInt(d.get(t), signed)
	if !ok {
		dfail("cannot read the model value of %s: %s", t.S, d.get(t))
	}
	if !n.IsInt64() {
		if n.IsUint64() {
			return int64(n.Uint64())
		}
		dfail("model value of %s does not fit 64 bits", t.S)
	}
	return n.Int64()
}

func (d *decoder) approx(f string, a ...any) {
	d.in.Approx = append(d.in.Approx, fmt.Sprintf(f, a...))
}

func (d *decoder) val(t types.Type, v Val, depth int) *VJ {
	fx := d.fx
	if depth > 8 {
		d.approx("value nested deeper than 8 levels replaced by its zero value")
		return &VJ{K: "nil"}
	}
	switch v := v.(type) {
	case Sc:
		switch u := under(t).(type) {
		case *types.Basic:
			switch {
			case u.Info()&types.IsBoolean != 0:
				return &VJ{K: "bool", B: d.get(v.T) == "true"}
			case u.Info()&types.IsInteger != 0:
				n, ok := parseSMTInt(d.get(v.T), !isUnsigned(t))
				if !ok {
					dfail("cannot read the model value of %s", v.T.S)
				}
				return &VJ{K: "int", I: n.String()}
			}
			d.approx("value of type %s is not modelled; zero used", t)
			return &VJ{K: "nil"}
		case *types.Map:
			nonNil := d.int(v.T, true) != 0
			if nonNil {
				d.approx("map contents of the model are not reproduced; an empty map is used")
			}
			return &VJ{K: "map", B: nonNil}
		case *types.Array:
			out := &VJ{K: "array"}
			if u.Len() > 256 {
				dfail("array too large")
			}
			for i := int64(0); i < u.Len(); i++ {
				out.E = append(out.E, d.val(u.Elem(), Sc{Select(v.T, fx.idx(i)), u.Elem()}, depth+1))
			}
			return out
		}
		if d.int(v.T, true) != 0 {
			d.approx("non-nil %s in the model replaced by nil", t)
		}
		return &VJ{K: "nil"}
	case StrV:
		n := d.int(v.Len, true)
		if n < 0 || n > 512 {
			dfail("string of length %d in the model", n)
		}
		base, off := d.int(v.Base, true), d.int(v.Off, true)
		row := Select(fx.strHeap(), IntC(base))
		bs := make([]byte, n)
		for i := int64(0); i < n; i++ {
			b := d.int(Select(row, fx.idx(off+i)), false)
			bs[i] = byte(b)
		}
		return &VJ{K: "str", S: bs}
	case SliceV:
		base := d.int(v.Base, true)
		ln, cp, off := d.int(v.Len, true), d.int(v.Cap, true), d.int(v.Off, true)
		if base == 0 || cp == 0 {
			if ln == 0 {
				return &VJ{K: "slice"}
			}
		}
		if ln < 0 || ln > 64 {
			dfail("slice of length %d in the model", ln)
		}
		if cp > ln+8 {
			d.approx("capacity %d of a slice of length %d clamped to %d", cp, ln, ln+8)
			cp = ln + 8
		}
		elem := under(t).(*types.Slice).Elem()
		key := typeKey(elem) + "#" + strconv.FormatInt(base, 10)
		sv := &VJ{K: "slice", Arr: key, Off: int(off), Len: int(ln), Cap: int(cp)}
		if off < 0 || off > 1<<30 {
			dfail("slice offset %d in the model", off)
		}
		d.slices[key] = append(d.slices[key], sv)
		d.etype[key] = elem
		d.abase[key] = base
		if d.elems[key] == nil {
			d.elems[key] = map[int]*VJ{}
		}
		for i := off; i < off+cp; i++ {
			d.elem(key, int(i), depth)
		}
		return sv
	case PtrV:
		if v.Kind == pkNil {
			return &VJ{K: "ptr"}
		}
		if v.Kind != pkHeap || len(v.Path) != 0 {
			dfail("pointer into the middle of an object in the entry state")
		}
		ref := d.int(v.Ref, true)
		if ref == 0 {
			return &VJ{K: "ptr"}
		}
		key := typeKey(v.Root) + "#" + strconv.FormatInt(ref, 10)
		if _, ok := d.in.Objs[key]; !ok {
			d.in.Objs[key] = &VJ{K: "nil"} // placeholder (cycles)
			obj := d.load(PtrV{Kind: pkHeap, Ref: IntC(ref), Root: v.Root})
			*d.in.Objs[key] = *d.val(v.Root, obj, depth+1)
		}
		return &VJ{K: "ptr", Ref: key}
	case StructV:
		st := under(t).(*types.Struct)
		out := &VJ{K: "struct", F: map[string]*VJ{}}
		for i := 0; i < st.NumFields(); i++ {
			out.F[st.Field(i).Name()] = d.val(st.Field(i).Type(), v.F[i], depth+1)
		}
		return out
	}
	dfail("cannot decode a value of type %s", t)
	return nil
}

// load reads through a pointer in the ENTRY state, tolerating heaps the query never mentioned.
func (d *decoder) load(p PtrV) Val {
	v := d.fx.loadPtr(d.fx.entry, p)
	d.sync()
	return v
}

func (d *decoder) elem(key string, idx int, depth int) {
	if _, ok := d.elems[key][idx]; ok {
		return
	}
	d.elems[key][idx] = &VJ{K: "nil"}
	elem := d.etype[key]
	v := d.load(PtrV{Kind: pkElem, Base: IntC(d.abase[key]), Idx: d.fx.idx(int64(idx)), Root: elem})
	*d.elems[key][idx] = *d.val(elem, v, depth+1)
}

func (d *decoder) finalize() {
	// arrays may gain slices while their elements are decoded; iterate until stable
	for round := 0; round < 8; round++ {
		changed := false
		keys := make([]string, 0, len(d.slices))
		for k := range d.slices {
			keys = append(keys, k)
		}
		sort.Strings(keys)
		for _, key := range keys {
			lo, hi := 1<<31, 0
			for _, sv := range d.slices[key] {
				if sv.Off < lo {
					lo = sv.Off
				}
				if sv.Off+sv.Cap > hi {
					hi = sv.Off + sv.Cap
				}
			}
			if hi-lo > 512 {
				dfail("backing array extent %d too large", hi-lo)
			}
			for i := lo; i < hi; i++ {
				if _, ok := d.elems[key][i]; !ok {
					d.elem(key, i, 2)
					changed = true
				}
			}
		}
		if !changed {
			break
		}
	}
	for key, svs := range d.slices {
		lo, hi := 1<<31, 0
		for _, sv := range svs {
			if sv.Off < lo {
				lo = sv.Off
			}
			if sv.Off+sv.Cap > hi {
				hi = sv.Off + sv.Cap
			}
		}
		var arr []*VJ
		for i := lo; i < hi; i++ {
			arr = append(arr, d.elems[key][i])
		}
		d.in.Arrays[key] = arr
		for _, sv := range svs {
			sv.Off -= lo
		}
	}
}

// DecodeEntry asks the solver for a (candidate) model of the failed obligation and decodes the
// function's entry state from it.
func DecodeEntry(o *Obligation, timeoutSec int) (in *ReplayInput, err error) {
	fx := o.fx
	if fx == nil || fx.entry == nil {
		return nil, fmt.Errorf("no entry state")
	}
	s, err := startSession()
	if err != nil {
		return nil, err
	}
	defer s.close()
	defer func() {
		if r := recover(); r != nil {
			switch x := r.(type) {
			case decodeErr:
				in, err = nil, fmt.Errorf("%s", string(x))
			case unsupportedErr:
				in, err = nil, fmt.Errorf("%s", string(x))
			case contractErr:
				in, err = nil, fmt.Errorf("%s", string(x))
			default:
				panic(r)
			}
		}
	}()
	q := o.query(false, false)
	q = strings.Replace(q, "(set-logic ALL)\n", fmt.Sprintf("(set-logic ALL)\n(set-option :timeout %d)\n", timeoutSec*1000), 1)
	s.send(q)
	verdict, err := s.readSexp(time.Duration(timeoutSec+5) * time.Second)
	if err != nil {
		return nil, err
	}
	if verdict != "sat" && verdict != "unknown" {
		return nil, fmt.Errorf("solver answered %q in the replay session", verdict)
	}
	in = &ReplayInput{Obligation: o.Name, Arrays: map[string][]*VJ{}, Objs: map[string]*VJ{}, Verdict: verdict}
	d := &decoder{fx: fx, s: s, nSent: o.NDecl, in: in, cache: map[string]string{}, slices: map[string][]*VJ{},
		elems: map[string]map[int]*VJ{}, etype: map[string]types.Type{}, abase: map[string]int64{}, budget: 4000}
	saved := fx.st
	fx.st = fx.entry
	defer func() { fx.st = saved }()
	for _, p := range fx.fn.Params {
		v, ok := fx.paramEntry[p.Name()]
		if !ok {
			return nil, fmt.Errorf("no entry value for parameter %s", p.Name())
		}
		in.Args = append(in.Args, d.val(p.Type(), v, 0))
	}
	d.finalize()
	return in, nil
}

// ---- driver generation ----

// DriverSource returns the Go source of the in-package test file that registers the functions
// under contract of pi with the executable contract back end.
func (e *Engine) DriverSource(pi *PkgInfo, rtcImport string, funcs []string) string {
	var b strings.Builder
	imports := map[string]string{} // path -> alias
	alias := func(path string) string {
		if a, ok := imports[path]; ok {
			return a
		}
		a := fmt.Sprintf("rtcimp%d", len(imports))
		imports[path] = a
		return a
	}
	var funcLines, constLines, pureLines []string
	for _, name := range funcs {
		fn := e.FindFunc(pi, name)
		if fn == nil || fn.TypeParams().Len() > 0 || len(fn.TypeArgs()) > 0 {
			continue
		}
		expr := fn.Name()
		if recv := fn.Signature.Recv(); recv != nil {
			rt := recv.Type()
			if p, ok := rt.(*types.Pointer); ok {
				if n, ok := p.Elem().(*types.Named); ok {
					if n.TypeArgs().Len() > 0 {
						continue
					}
					expr = "(*" + n.Obj().Name() + ")." + fn.Name()
				} else {
					continue
				}
			} else if n, ok := rt.(*types.Named); ok {
				if n.TypeArgs().Len() > 0 {
					continue
				}
				expr = n.Obj().Name() + "." + fn.Name()
			} else {
				continue
			}
		}
		var ps, rs []string
		for _, p := range fn.Params {
			ps = append(ps, strconv.Quote(p.Name()))
		}
		res := fn.Signature.Results()
		for i := 0; i < res.Len(); i++ {
			rs = append(rs, strconv.Quote(res.At(i).Name()))
		}
		funcLines = append(funcLines, fmt.Sprintf("\t\t%q: {Fn: reflect.ValueOf(%s), Params: []string{%s}, Results: []string{%s}},",
			name, expr, strings.Join(ps, ", "), strings.Join(rs, ", ")))
	}
	// constants and pure functions mentioned by the contract files this package can see
	seenC := map[string]bool{}
	seenP := map[string]bool{}
	constLit := func(c *types.Const) (string, bool) {
		switch {
		case isBoolean(c.Type()):
			return strconv.FormatBool(constant.BoolVal(c.Val())), true
		case isInteger(c.Type()):
			v := constant.ToInt(c.Val())
			if i64, ok := constant.Int64Val(v); ok {
				return fmt.Sprintf("int64(%d)", i64), true
			}
			if u64, ok := constant.Uint64Val(v); ok {
				return fmt.Sprintf("int64(-%d)", ^u64+1), true
			}
		case isString(c.Type()):
			return strconv.Quote(constant.StringVal(c.Val())), true
		}
		return "", false
	}
	var walk func(x Expr)
	walk = func(x Expr) {
		switch x := x.(type) {
		case nil:
		case *Ident:
			if seenC[x.Name] {
				return
			}
			if c, ok := pi.Types.Scope().Lookup(x.Name).(*types.Const); ok {
				if lit, ok := constLit(c); ok {
					seenC[x.Name] = true
					constLines = append(constLines, fmt.Sprintf("\t\t%q: %s,", x.Name, lit))
				}
			}
		case *FieldE:
			if id, ok := x.X.(*Ident); ok {
				for _, imp := range pi.Types.Imports() {
					if imp.Name() == id.Name {
						if c, ok := imp.Scope().Lookup(x.Name).(*types.Const); ok {
							key := id.Name + "." + x.Name
							if lit, ok := constLit(c); ok && !seenC[key] {
								seenC[key] = true
								constLines = append(constLines, fmt.Sprintf("\t\t%q: %s,", key, lit))
							}
						}
					}
				}
			}
			walk(x.X)
		case *Unary:
			walk(x.X)
		case *Binary:
			walk(x.X)
			walk(x.Y)
		case *IndexE:
			walk(x.X)
			walk(x.I)
		case *SliceE:
			walk(x.X)
			walk(x.Lo)
			walk(x.Hi)
		case *CallE:
			if (x.Fun == "pure0" || x.Fun == "pure1") && len(x.Args) > 0 {
				if lit, ok := x.Args[0].(*StrLit); ok && !seenP[lit.Val] {
					seenP[lit.Val] = true
					if fn := e.funcByKey(lit.Val); fn != nil && fn.Signature.Recv() == nil && fn.Pkg != nil {
						if fn.Pkg.Pkg.Path() == pi.Path {
							pureLines = append(pureLines, fmt.Sprintf("\t\t%q: reflect.ValueOf(%s),", lit.Val, fn.Name()))
						} else if fn.Object() != nil && fn.Object().Exported() {
							pureLines = append(pureLines, fmt.Sprintf("\t\t%q: reflect.ValueOf(%s.%s),", lit.Val, alias(fn.Pkg.Pkg.Path()), fn.Name()))
						}
					}
				}
			}
			for _, a := range x.Args {
				walk(a)
			}
		case *Quant:
			walk(x.Lo)
			walk(x.Hi)
			walk(x.Body)
		case *OldE:
			walk(x.X)
		case *CondE:
			walk(x.C)
			walk(x.A)
			walk(x.B)
		case *LetE:
			walk(x.Val)
			walk(x.Body)
		}
	}
	for _, cf := range e.ContractFilesFor(pi) {
		for _, fs := range cf.Funcs {
			for _, c := range fs.Requires {
				walk(c.E)
			}
			for _, c := range fs.Ensures {
				walk(c.E)
			}
		}
		for _, ps := range cf.Preds {
			walk(ps.Body)
		}
	}
	sort.Strings(constLines)
	sort.Strings(pureLines)
	fmt.Fprintf(&b, "package %s\n\n// Generated by govc for the executable contract back end (replay). Not part of the repository.\n\nimport (\n\t\"reflect\"\n\t\"testing\"\n\n\trtc %q\n", pi.Short, rtcImport)
	var ipaths []string
	for p := range imports {
		ipaths = append(ipaths, p)
	}
	sort.Strings(ipaths)
	for _, p := range ipaths {
		fmt.Fprintf(&b, "\t%s %q\n", imports[p], p)
	}
	b.WriteString(")\n\n")
	fmt.Fprintf(&b, "func TestVerifRTC(t *testing.T) {\n\trtc.Main(t, &rtc.Pkg{\n\t\tName: %q,\n\t\tFuncs: map[string]rtc.Func{\n", pi.Short)
	for _, l := range funcLines {
		b.WriteString("\t" + l + "\n")
	}
	b.WriteString("\t\t},\n\t\tConsts: map[string]any{\n")
	for _, l := range constLines {
		b.WriteString("\t" + l + "\n")
	}
	b.WriteString("\t\t},\n\t\tPure: map[string]reflect.Value{\n")
	for _, l := range pureLines {
		b.WriteString("\t" + l + "\n")
	}
	b.WriteString("\t\t},\n\t})\n}\n")
	return b.String()
}

// ContractFilesFor lists the contract files whose spec functions are visible from pi, own first.
func (e *Engine) ContractFilesFor(pi *PkgInfo) []*ContractFile {
	var out []*ContractFile
	if pi.Contracts != nil {
		out = append(out, pi.Contracts)
	}
	if e.prelude != nil {
		out = append(out, e.prelude)
	}
	if e.stdlib != nil {
		out = append(out, e.stdlib)
	}
	var paths []string
	for p := range e.pkgs {
		paths = append(paths, p)
	}
	sort.Strings(paths)
	for _, p := range paths {
		if o := e.pkgs[p]; o != pi && o.Contracts != nil {
			out = append(out, o.Contracts)
		}
	}
	return out
}

var _ = ssa.NaiveForm
