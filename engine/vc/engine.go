package vc

import (
	"fmt"
	"go/token"
	"go/types"
	"os"
	"path/filepath"
	"sort"
	"strings"

	"golang.org/x/tools/go/packages"
	"golang.org/x/tools/go/ssa"
)

type PkgInfo struct {
	Path      string
	Short     string
	Dir       string
	Types     *types.Package
	SSA       *ssa.Package
	Contracts *ContractFile
	Source    string // where the contract file was read from
	Initial   bool   // named by the load patterns (function bodies are available)
}

type Engine struct {
	RepoDir   string
	VerifDir  string
	fset      *token.FileSet
	prog      *ssa.Program
	pkgs      map[string]*PkgInfo // by import path
	byShort   map[string]*PkgInfo
	stdlib    *ContractFile // trusted contracts for library functions
	stdPkg    *PkgInfo
	prelude   *ContractFile
	Warnings  []string
	allPkgs   map[string]*packages.Package
	tables    map[string]*tableInfo
	constStrs map[*ssa.Global]*string
}

const ContractFileName = "zz_verif_contracts.go"

// Load loads the given package patterns (relative to the repo) with the verif tag.
func Load(repoDir, verifDir string, patterns []string) (*Engine, error) {
	if !strings.HasPrefix(os.Getenv("PATH"), "/opt/veriftools/go1.26.8/bin") {
		os.Setenv("PATH", "/opt/veriftools/go1.26.8/bin:"+os.Getenv("PATH"))
	}
	cfg := &packages.Config{
		Mode:       packages.LoadAllSyntax,
		Dir:        repoDir,
		BuildFlags: []string{"-tags=verif"},
		Env: append(os.Environ(), "GOFLAGS=-mod=mod", "GOPROXY=off", "GOSUMDB=off", "GOTOOLCHAIN=local",
			"PATH=/opt/veriftools/go1.26.8/bin:"+os.Getenv("PATH")),
	}
	pkgs, err := packages.Load(cfg, patterns...)
	if err != nil {
		return nil, err
	}
	var errs []string
	for _, p := range pkgs {
		for _, e := range p.Errors {
			errs = append(errs, e.Error())
		}
	}
	if len(errs) > 0 {
		return nil, fmt.Errorf("package load errors: %s", strings.Join(errs, "; "))
	}
	// SSA packages: with function bodies for the requested packages and for the other packages of the
	// repository's module they import (a small helper there can then be executed in place when it has
	// no contract, calls.go, instead of pushing its caller out of the subset); from type information
	// only for everything outside the module (reached through the trusted library contracts).
	var fset *token.FileSet
	if len(pkgs) > 0 {
		fset = pkgs[0].Fset
	}
	prog := ssa.NewProgram(fset, ssa.NaiveForm|ssa.InstantiateGenerics)
	mod := ""
	if data, err := os.ReadFile(filepath.Join(repoDir, "go.mod")); err == nil {
		for _, line := range strings.Split(string(data), "\n") {
			if strings.HasPrefix(line, "module ") {
				mod = strings.TrimSpace(strings.TrimPrefix(line, "module "))
				break
			}
		}
	}
	initial := map[*packages.Package]bool{}
	for _, p := range pkgs {
		initial[p] = true
	}
	created := map[*packages.Package]*ssa.Package{}
	packages.Visit(pkgs, nil, func(p *packages.Package) {
		if p.Types == nil || p.IllTyped {
			return
		}
		inMod := mod != "" && (p.PkgPath == mod || strings.HasPrefix(p.PkgPath, mod+"/"))
		if (initial[p] || inMod) && len(p.Syntax) > 0 && p.TypesInfo != nil {
			created[p] = prog.CreatePackage(p.Types, p.Syntax, p.TypesInfo, true)
		} else {
			prog.CreatePackage(p.Types, nil, nil, true)
		}
	})
	spkgs := make([]*ssa.Package, len(pkgs))
	for i, p := range pkgs {
		spkgs[i] = created[p]
	}
	prog.Build()
	e := &Engine{RepoDir: repoDir, VerifDir: verifDir, prog: prog, pkgs: map[string]*PkgInfo{}, byShort: map[string]*PkgInfo{}, allPkgs: map[string]*packages.Package{}}
	if len(pkgs) > 0 {
		e.fset = pkgs[0].Fset
	}
	packages.Visit(pkgs, nil, func(p *packages.Package) { e.allPkgs[p.PkgPath] = p })
	for i, p := range pkgs {
		if spkgs[i] == nil {
			continue
		}
		dir := ""
		if len(p.GoFiles) > 0 {
			dir = filepath.Dir(p.GoFiles[0])
		}
		pi := &PkgInfo{Path: p.PkgPath, Short: p.Name, Dir: dir, Types: p.Types, SSA: spkgs[i], Initial: true}
		// contract file: in the repo, else the mirror under /verif/contracts
		cand := []string{filepath.Join(dir, ContractFileName)}
		if rel, err := filepath.Rel(repoDir, dir); err == nil {
			cand = append(cand, filepath.Join(verifDir, "contracts", rel, ContractFileName))
		}
		for _, c := range cand {
			if _, err := os.Stat(c); err == nil {
				cf, err := ParseContractFile(c)
				if err != nil {
					return nil, err
				}
				pi.Contracts = cf
				pi.Source = c
				break
			}
		}
		e.pkgs[p.PkgPath] = pi
		e.byShort[p.Name] = pi
	}
	// Dependencies (packages loaded transitively) also get PkgInfo so that callee contracts are found.
	for path, p := range e.allPkgs {
		if _, ok := e.pkgs[path]; ok || p.Types == nil {
			continue
		}
		sp := prog.Package(p.Types)
		if sp == nil {
			continue
		}
		dir := ""
		if len(p.GoFiles) > 0 {
			dir = filepath.Dir(p.GoFiles[0])
		}
		pi := &PkgInfo{Path: path, Short: p.Name, Dir: dir, Types: p.Types, SSA: sp}
		if strings.HasPrefix(dir, repoDir) {
			cand := []string{filepath.Join(dir, ContractFileName)}
			if rel, err := filepath.Rel(repoDir, dir); err == nil {
				cand = append(cand, filepath.Join(verifDir, "contracts", rel, ContractFileName))
			}
			for _, c := range cand {
				if _, err := os.Stat(c); err == nil {
					cf, err := ParseContractFile(c)
					if err != nil {
						return nil, err
					}
					pi.Contracts = cf
					pi.Source = c
					break
				}
			}
		}
		e.pkgs[path] = pi
		if _, dup := e.byShort[p.Name]; !dup {
			e.byShort[p.Name] = pi
		}
	}
	std := filepath.Join(verifDir, "contracts", "stdlib_contracts.go")
	if _, err := os.Stat(std); err == nil {
		cf, err := ParseContractFile(std)
		if err != nil {
			return nil, err
		}
		e.stdlib = cf
	}
	pre := filepath.Join(verifDir, "contracts", "prelude_contracts.go")
	if _, err := os.Stat(pre); err == nil {
		cf, err := ParseContractFile(pre)
		if err != nil {
			return nil, err
		}
		e.prelude = cf
	}
	return e, nil
}

func (e *Engine) pkgInfo(path string) *PkgInfo { return e.pkgs[path] }

// funcKey names a function the way contract files do, prefixed with the short package name:
// "lex.hexval", "lex.Tables.Scan", "lalr.allocator.place$1", "sort.Search".
func (e *Engine) funcKey(fn *ssa.Function) string {
	name := localFuncName(fn)
	root := fn
	for root.Parent() != nil {
		root = root.Parent()
	}
	pkg := ""
	if root.Pkg != nil {
		pkg = root.Pkg.Pkg.Name()
	} else if o := root.Object(); o != nil && o.Pkg() != nil {
		pkg = o.Pkg().Name()
	} else if root.Origin() != nil && root.Origin().Pkg != nil {
		pkg = root.Origin().Pkg.Pkg.Name()
	}
	return pkg + "." + name
}

// localFuncName is "Recv.Name" or "Name" (closures: "Recv.Name$1").
func localFuncName(fn *ssa.Function) string {
	root := fn
	suffix := ""
	for root.Parent() != nil {
		// closure names already contain the parent name: "place$1"
		suffix = ""
		root = root.Parent()
	}
	_ = suffix
	name := fn.Name()
	if o := fn.Origin(); o != nil {
		name = o.Name()
	}
	sig := root.Signature
	if sig.Recv() != nil {
		t := sig.Recv().Type()
		if p, ok := t.(*types.Pointer); ok {
			t = p.Elem()
		}
		if n, ok := t.(*types.Named); ok {
			return n.Obj().Name() + "." + name
		}
		if a, ok := t.(*types.Alias); ok {
			return a.Obj().Name() + "." + name
		}
	}
	return name
}

func (e *Engine) pkgOfFunc(fn *ssa.Function) *PkgInfo {
	root := fn
	for root.Parent() != nil {
		root = root.Parent()
	}
	if root.Pkg != nil {
		return e.pkgs[root.Pkg.Pkg.Path()]
	}
	if o := root.Origin(); o != nil && o.Pkg != nil {
		return e.pkgs[o.Pkg.Pkg.Path()]
	}
	if o := root.Object(); o != nil && o.Pkg() != nil {
		return e.pkgs[o.Pkg().Path()]
	}
	return nil
}

// specFor finds the contract of fn (repo contract files first, then the stdlib file).
func (e *Engine) specFor(fn *ssa.Function) (*FuncSpec, *PkgInfo) {
	pi := e.pkgOfFunc(fn)
	local := localFuncName(fn)
	if pi != nil && pi.Contracts != nil {
		if s, ok := pi.Contracts.Funcs[local]; ok {
			return s, pi
		}
	}
	if e.stdlib != nil {
		if s, ok := e.stdlib.Funcs[e.funcKey(fn)]; ok {
			return s, pi
		}
	}
	return nil, pi
}

// lookupPred finds a predicate / spec function by name.
func (e *Engine) lookupPred(from *PkgInfo, name string) *PredSpec {
	if p, _ := e.findPred(from, name); p != nil {
		return p
	}
	return nil
}

func (e *Engine) predPkg(from *PkgInfo, name string) *PkgInfo {
	_, pk := e.findPred(from, name)
	return pk
}

func (e *Engine) findPred(from *PkgInfo, name string) (*PredSpec, *PkgInfo) {
	if from != nil && from.Contracts != nil {
		if p, ok := from.Contracts.Preds[name]; ok {
			return p, from
		}
	}
	if e.prelude != nil {
		if p, ok := e.prelude.Preds[name]; ok {
			return p, from
		}
	}
	if e.stdlib != nil {
		if p, ok := e.stdlib.Preds[name]; ok {
			return p, from
		}
	}
	var paths []string
	for path := range e.pkgs {
		paths = append(paths, path)
	}
	sort.Strings(paths)
	for _, path := range paths {
		pi := e.pkgs[path]
		if pi.Contracts != nil {
			if p, ok := pi.Contracts.Preds[name]; ok {
				return p, pi
			}
		}
	}
	return nil, nil
}

func (e *Engine) resolveType(pkg *PkgInfo, name string) types.Type {
	if pkg == nil {
		return nil
	}
	if obj := pkg.Types.Scope().Lookup(name); obj != nil {
		if tn, ok := obj.(*types.TypeName); ok {
			return tn.Type()
		}
	}
	if obj := types.Universe.Lookup(name); obj != nil {
		if tn, ok := obj.(*types.TypeName); ok {
			return tn.Type()
		}
	}
	return nil
}

// FindFunc resolves "pkgshort.Name" / "pkgshort.Recv.Name" to an SSA function.
func (e *Engine) FindFunc(pi *PkgInfo, local string) *ssa.Function {
	parts := strings.SplitN(local, ".", 2)
	if len(parts) == 1 {
		return pi.SSA.Func(local)
	}
	recv, meth := parts[0], parts[1]
	closure := ""
	if i := strings.Index(meth, "$"); i >= 0 {
		closure = meth[i:]
		meth = meth[:i]
	}
	tn, ok := pi.SSA.Members[recv].(*ssa.Type)
	if !ok {
		return nil
	}
	for _, t := range []types.Type{tn.Type(), types.NewPointer(tn.Type())} {
		ms := e.prog.MethodSets.MethodSet(t)
		for i := 0; i < ms.Len(); i++ {
			if ms.At(i).Obj().Name() == meth {
				fn := e.prog.MethodValue(ms.At(i))
				if fn == nil || fn.Synthetic != "" {
					continue
				}
				if closure != "" {
					for _, an := range fn.AnonFuncs {
						if an.Name() == meth+closure {
							return an
						}
					}
					return nil
				}
				return fn
			}
		}
	}
	return nil
}

// Packages lists loaded packages in a stable order.
func (e *Engine) Packages() []*PkgInfo {
	var paths []string
	for p := range e.pkgs {
		paths = append(paths, p)
	}
	sort.Strings(paths)
	var out []*PkgInfo
	for _, p := range paths {
		out = append(out, e.pkgs[p])
	}
	return out
}

// funcByKey resolves "pkgname.Func" (package-level functions only) in any loaded package.
func (e *Engine) funcByKey(key string) *ssa.Function {
	i := strings.Index(key, ".")
	if i < 0 {
		return nil
	}
	var paths []string
	for p := range e.pkgs {
		paths = append(paths, p)
	}
	sort.Strings(paths)
	for _, p := range paths {
		pi := e.pkgs[p]
		if pi.Short == key[:i] && pi.SSA != nil {
			if fn := pi.SSA.Func(key[i+1:]); fn != nil {
				return fn
			}
		}
	}
	return nil
}
