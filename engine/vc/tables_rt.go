package vc

// Tables whose elements are not plain integers (slices of structs with nested slices): the
// read-only check is done on the SSA as for integer tables; the facts - closed, bounded
// statements - are EVALUATED on the variable as the Go runtime initialised it, by the executable
// contract back end injected into the package with `go test -overlay` (exhaustive evaluation, not
// a solver query). The results come back as obligations of kind "table" that are already decided.

import (
	"encoding/json"
	"fmt"
	"go/types"
	"os"
	"os/exec"
	"path/filepath"
	"strings"

	"golang.org/x/tools/go/ssa"
)

// generalTable checks that name is a package-level slice variable that is assigned once (by the
// package initialiser) and otherwise only read; it returns the length of the literal.
func (e *Engine) generalTable(pi *PkgInfo, name string) (*tableInfo, string) {
	g, ok := pi.SSA.Members[name].(*ssa.Global)
	if !ok {
		return nil, "no package-level variable " + name
	}
	sl, isSlice := under(g.Type().(*types.Pointer).Elem()).(*types.Slice)
	if !isSlice {
		return nil, name + " is not a slice"
	}
	init := pi.SSA.Func("init")
	if init == nil {
		return nil, "package has no init function"
	}
	var theStore *ssa.Store
	for _, fn := range allFuncs(pi.SSA) {
		for _, b := range fn.Blocks {
			for _, in := range b.Instrs {
				for _, op := range in.Operands(nil) {
					if *op != ssa.Value(g) {
						continue
					}
					switch x := in.(type) {
					case *ssa.Store:
						if x.Addr == ssa.Value(g) && fn == init && theStore == nil {
							theStore = x
							continue
						}
						return nil, fmt.Sprintf("%s is assigned in %s", name, fn.Name())
					case *ssa.UnOp:
						if why := readOnlyUse(x, 0); why != "" {
							return nil, fmt.Sprintf("%s: %s in %s", name, why, fn.Name())
						}
					case *ssa.DebugRef:
					default:
						return nil, fmt.Sprintf("%s: its address is used by %T in %s", name, in, fn.Name())
					}
				}
			}
		}
	}
	if theStore == nil {
		return nil, name + " has no initialiser"
	}
	val := theStore.Val
	if u, isLoad := val.(*ssa.UnOp); isLoad {
		if tmp, isAlloc := u.X.(*ssa.Alloc); isAlloc {
			for _, r := range *tmp.Referrers() {
				if st, isStore := r.(*ssa.Store); isStore && st.Addr == ssa.Value(tmp) {
					val = st.Val
				}
			}
		}
	}
	s, ok := val.(*ssa.Slice)
	if !ok || s.Low != nil || s.High != nil {
		return nil, name + " is not initialised by a composite literal"
	}
	arr, ok := s.X.(*ssa.Alloc)
	if !ok {
		return nil, name + " is not initialised by a composite literal"
	}
	at, ok := under(arr.Type().(*types.Pointer).Elem()).(*types.Array)
	if !ok {
		return nil, name + " is not initialised by a composite literal"
	}
	return &tableInfo{g: g, elem: sl.Elem(), n: int(at.Len()), runtime: true, slice: true}, ""
}

// evalFactsAtRuntime runs the facts of the given tables of one package on the initialised variables.
func (e *Engine) evalFactsAtRuntime(pi *PkgInfo, specs []*TableSpec) (map[string][]factOutcome, error) {
	tmp, err := os.MkdirTemp("", "govc_facts")
	if err != nil {
		return nil, err
	}
	defer os.RemoveAll(tmp)
	rel, err := filepath.Rel(e.RepoDir, pi.Dir)
	if err != nil {
		return nil, err
	}
	overlay := map[string]string{}
	for _, f := range []string{"cexpr.go", "cfile.go"} {
		data, err := os.ReadFile(filepath.Join(e.VerifDir, "engine", "vc", f))
		if err != nil {
			return nil, err
		}
		txt := strings.Replace(string(data), "package vc\n", "package rtc\n", 1)
		p := filepath.Join(tmp, f)
		os.WriteFile(p, []byte(txt), 0o644)
		overlay[filepath.Join(e.RepoDir, "zz_verif_rtc", f)] = p
	}
	for _, f := range []string{"rtc.go", "facts.go"} {
		overlay[filepath.Join(e.RepoDir, "zz_verif_rtc", f)] = filepath.Join(e.VerifDir, "harness", "rtc", f)
	}
	// every package-level variable with a table block is handed over (facts may mention several)
	var vars []string
	for _, tn := range pi.Contracts.TableOrder {
		if _, ok := pi.SSA.Members[tn].(*ssa.Global); ok {
			vars = append(vars, fmt.Sprintf("\t\t%q: reflect.ValueOf(&%s).Elem(),", tn, tn))
		}
	}
	var facts []string
	for _, ts := range specs {
		for _, f := range ts.Facts {
			for _, cj := range conjuncts(f.E) {
				facts = append(facts, ExprString(cj))
			}
		}
	}
	drv := fmt.Sprintf("package %s\n\nimport (\n\t\"reflect\"\n\t\"testing\"\n\n\trtc %q\n)\n\nfunc TestVerifTableFacts(t *testing.T) {\n\trtc.TableFacts(t, map[string]reflect.Value{\n%s\n\t}, map[string]any{})\n}\n",
		pi.Short, "github.com/inspirer/textmapper/zz_verif_rtc", strings.Join(vars, "\n"))
	dp := filepath.Join(tmp, "facts_driver_test.go")
	os.WriteFile(dp, []byte(drv), 0o644)
	overlay[filepath.Join(pi.Dir, "zz_verif_facts_test.go")] = dp
	ov, _ := json.Marshal(map[string]any{"Replace": overlay})
	ovp := filepath.Join(tmp, "overlay.json")
	os.WriteFile(ovp, ov, 0o644)
	out := filepath.Join(tmp, "out.json")
	job, _ := json.Marshal(map[string]any{"files": contractPaths(e.ContractFilesFor(pi)), "facts": facts, "out": out})
	jp := filepath.Join(tmp, "job.json")
	os.WriteFile(jp, job, 0o644)
	cmd := exec.Command("go", "test", "-overlay", ovp, "-vet=off", "-count=1", "-timeout", "120s", "-run", "TestVerifTableFacts$", "./"+rel)
	cmd.Dir = e.RepoDir
	cmd.Env = append(os.Environ(), "VERIF_FACTS_JOB="+jp, "GOFLAGS=-mod=mod", "GOPROXY=off", "GOSUMDB=off", "GOTOOLCHAIN=local")
	outp, _ := cmd.CombinedOutput()
	data, err := os.ReadFile(out)
	if err != nil {
		return nil, fmt.Errorf("facts were not evaluated: %s", lastLines(string(outp), 6))
	}
	var rs []struct {
		Fact string `json:"fact"`
		Ok   bool   `json:"ok"`
		Eval bool   `json:"evaluated"`
		Why  string `json:"why"`
	}
	if err := json.Unmarshal(data, &rs); err != nil {
		return nil, err
	}
	res := map[string][]factOutcome{}
	k := 0
	for _, ts := range specs {
		for _, f := range ts.Facts {
			for range conjuncts(f.E) {
				if k < len(rs) {
					res[ts.Name] = append(res[ts.Name], factOutcome{rs[k].Fact, rs[k].Ok, rs[k].Eval, rs[k].Why})
				}
				k++
			}
		}
	}
	return res, nil
}

type factOutcome struct {
	text string
	ok   bool
	eval bool
	why  string
}

func contractPaths(cfs []*ContractFile) []string {
	var out []string
	for _, c := range cfs {
		out = append(out, c.Path)
	}
	return out
}

func lastLines(s string, n int) string {
	ls := strings.Split(strings.TrimSpace(s), "\n")
	if len(ls) > n {
		ls = ls[len(ls)-n:]
	}
	return strings.Join(ls, " | ")
}

// VerifyRuntimeTable turns the evaluated facts of a non-integer table into decided obligations.
func (e *Engine) VerifyRuntimeTable(pi *PkgInfo, ts *TableSpec, ti *tableInfo) *FuncResult {
	res := &FuncResult{Func: pi.Short + ".table " + ts.Name, Mode: "int", File: ts.File, Line: ts.Line}
	outs, err := e.evalFactsAtRuntime(pi, []*TableSpec{ts})
	if err != nil {
		res.Status, res.Error = "unsupported", err.Error()
		return res
	}
	spec := &FuncSpec{Name: "table " + ts.Name, File: ts.File, Line: ts.Line, Mode: "int", Loops: map[int]*LoopSpec{}, Options: map[string]string{}}
	fx := newFx(e, pi, nil, spec)
	for i, o := range outs[ts.Name] {
		r := &ObResult{Name: fmt.Sprintf("%s.table %s/table#%d", pi.Short, ts.Name, i+1), Kind: "table", Func: res.Func, Text: "table fact: " + o.text,
			Solver: "evaluated on the initialised variable (exhaustive, go test -overlay)"}
		switch {
		case o.eval && o.ok:
			r.Status = "discharged"
		case o.eval:
			r.Status, r.Output = "refuted", "the fact evaluates to false on the variable as initialised"
		default:
			r.Status, r.Output = "unknown", "the fact could not be evaluated: "+o.why
		}
		res.Obligations = append(res.Obligations, &Obligation{Name: r.Name, Kind: "table", Func: res.Func, Text: r.Text, Goal: True, PC: True, fx: fx, Decided: r})
	}
	res.Status = "ok"
	res.Notes = append(res.Notes, fmt.Sprintf("table %s: %d elements of type %s; assigned once by the package initialiser and only read in package %s (checked on the SSA); its facts are evaluated on the initialised variable, not sent to a solver", ts.Name, ti.n, ti.elem, pi.Short))
	return res
}
