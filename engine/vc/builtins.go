package vc

import (
	"fmt"
	"go/token"
	"go/types"
	"strings"

	"golang.org/x/tools/go/ssa"
)

func (fx *FuncVC) builtin(fr *frame, b *ssa.Builtin, c *ssa.CallCommon, pos token.Pos, instr ssa.Value) Val {
	var args []Val
	for _, a := range c.Args {
		args = append(args, fx.val(fr, a))
	}
	intT := types.Typ[types.Int]
	switch b.Name() {
	case "len", "cap":
		switch s := args[0].(type) {
		case SliceV:
			if b.Name() == "len" {
				return Sc{s.Len, intT}
			}
			return Sc{s.Cap, intT}
		case StrV:
			return Sc{s.Len, intT}
		case Sc:
			if a, ok := under(s.Typ).(*types.Array); ok {
				return Sc{fx.idx(a.Len()), intT}
			}
			if _, ok := under(s.Typ).(*types.Map); ok {
				return fx.mapLen(s)
			}
		case PtrV:
			if a, ok := under(typeAt(s.Root, s.Path)).(*types.Array); ok {
				return Sc{fx.idx(a.Len()), intT}
			}
		}
		panic(unsupported("len/cap of %T", args[0]))
	case "append":
		return fx.doAppend(args[0].(SliceV), args[1], pos, c.Args[1])
	case "copy":
		return fx.doCopy(args[0].(SliceV), args[1], pos)
	case "min", "max":
		r := args[0].(Sc)
		signed := !isUnsigned(r.Typ)
		for _, a := range args[1:] {
			x := a.(Sc)
			cnd := Lt(x.T, r.T, signed)
			if b.Name() == "max" {
				cnd = Lt(r.T, x.T, signed)
			}
			r = Sc{Ite(cnd, x.T, r.T), r.Typ}
		}
		return r
	case "ssa:wrapnilchk":
		return args[0]
	case "ssa:deferstack":
		return Sc{IntC(0), c.Signature().Results().At(0).Type()}
	case "print", "println":
		return nil
	case "delete":
		fx.mapDelete(args[0].(Sc), args[1], c.Args[0].Type())
		return nil
	case "clear":
		panic(unsupported("builtin clear"))
	}
	panic(unsupported("builtin %s", b.Name()))
}

// doAppend models append(s, t...).
func (fx *FuncVC) doAppend(s SliceV, t Val, pos token.Pos, targ ssa.Value) Val {
	elem := under(s.Typ).(*types.Slice).Elem()
	if sv, ok := t.(StrV); ok { // append([]byte, string...)
		_ = sv
		panic(unsupported("append of a string"))
	}
	tv := t.(SliceV)
	if n, ok := fx.litIdx(tv.Len); ok && n <= 8 {
		cur := s
		for i := int64(0); i < n; i++ {
			p := PtrV{Kind: pkElem, Base: tv.Base, Idx: Add(tv.Off, fx.idx(i)), Root: elem}
			v := fx.loadPtr(fx.st, p)
			cur = fx.append1(cur, elem, v, pos)
		}
		return cur
	}
	return fx.appendMany(s, tv, elem, pos)
}

func (fx *FuncVC) litIdx(t T) (int64, bool) {
	if !fx.bv {
		return isIntLit(t)
	}
	var v int64
	var w int
	if n, err := fmt.Sscanf(t.S, "(_ bv%d %d)", &v, &w); err == nil && n == 2 {
		return v, true
	}
	return 0, false
}

// append1 appends one element (value v) to s.
func (fx *FuncVC) append1(s SliceV, elem types.Type, v Val, pos token.Pos) SliceV {
	fits := fx.define("fits", Lt(s.Len, s.Cap, true))
	nb := fx.newRef("app")
	ncap := fx.fresh("ncap", fx.idxSort())
	fx.assumeRaw(And(Lt(s.Len, ncap, true), Lt(s.Cap, ncap, true)))
	rbase := fx.fresh("abase", SInt)
	fx.assumeRaw(Eq(rbase, Ite(fits, s.Base, nb)))
	at := Add(s.Off, s.Len)
	// frame: an in-place append writes s[len] of the old backing array
	if fx.spec != nil {
		name := elemHeapName(elem, fx.leavesOf(elem)[0].Path)
		in := fx.inRegionsElem(name, fx.frameRegions(), s.Base, at)
		fx.oblige("frame", Implies(fits, Or(Le(fx.alloc0, s.Base, true), in)), pos, "in-place append stays in the modifies frame")
	}
	vals := flat(v)
	for i, l := range fx.leavesOf(elem) {
		name := elemHeapName(elem, l.Path)
		h := fx.heap(fx.st, name, fx.heapSortElem(l.Sort))
		nh := Store(h, rbase, Store(Select(h, s.Base), at, vals[i]))
		c := fx.fresh(name, nh.Sort)
		fx.assumeRaw(Eq(c, nh))
		fx.storeFrameLemma(c, h, rbase, s.Base, at)
		fx.setHeap(name, c)
	}
	rcap := fx.fresh("acap", fx.idxSort())
	fx.assumeRaw(Eq(rcap, Ite(fits, s.Cap, ncap)))
	return SliceV{rbase, s.Off, Add(s.Len, fx.idx(1)), rcap, s.Typ}
}

// appendMany appends a slice of symbolic length.
func (fx *FuncVC) appendMany(s, t SliceV, elem types.Type, pos token.Pos) SliceV {
	// index arithmetic in the sort of the mode (Int, or 64-bit vectors in mode bv)
	is := string(fx.idxSort())
	le, lt, add := "<=", "<", "+"
	if fx.bv {
		le, lt, add = "bvsle", "bvslt", "bvadd"
	}
	inRange := func(lo, v, hi string) string { return fmt.Sprintf("(and (%s %s %s) (%s %s %s))", le, lo, v, lt, v, hi) }
	nlen := Add(s.Len, t.Len)
	fits := fx.define("fits", Le(nlen, s.Cap, true))
	nb := fx.newRef("app")
	ncap := fx.fresh("ncap", fx.idxSort())
	fx.assumeRaw(And(Le(nlen, ncap, true), Lt(s.Cap, ncap, true)))
	if fx.bv {
		fx.assumeRaw(Le(ncap, fx.idx(1<<40), true))
	}
	rbase := fx.define("abase", Ite(fits, s.Base, nb))
	at := Add(s.Off, s.Len)
	end := Add(at, t.Len)
	if fx.spec != nil {
		name := elemHeapName(elem, fx.leavesOf(elem)[0].Path)
		j := T{"aj?", fx.idxSort()}
		in := fx.inRegionsElem(name, fx.frameRegions(), s.Base, j)
		q := fmt.Sprintf("(forall ((aj? %s)) (=> %s %s))", is, inRange(at.S, "aj?", end.S), Or(Le(fx.alloc0, s.Base, true), in).S)
		fx.oblige("frame", Implies(fits, T{q, SBool}), pos, "in-place append stays in the modifies frame")
	}
	for _, l := range fx.leavesOf(elem) {
		name := elemHeapName(elem, l.Path)
		h := fx.heap(fx.st, name, fx.heapSortElem(l.Sort))
		nh := fx.fresh(name, h.Sort)
		// other rows unchanged
		fx.assume(T{fmt.Sprintf("(forall ((ab? Int)) (! (=> (not (= ab? %s)) (= (select %s ab?) (select %s ab?))) :pattern ((select %s ab?))))", rbase.S, nh.S, h.S, nh.S), SBool})
		row := Select(nh, rbase)
		orow := Select(h, s.Base)
		trow := Select(h, t.Base)
		// appended part
		fx.assume(T{fmt.Sprintf("(forall ((aj? %s)) (! (=> %s (= (select %s aj?) (select %s (%s aj? %s)))) :pattern ((select %s aj?))))",
			is, inRange(at.S, "aj?", end.S), row.S, trow.S, add, Sub(t.Off, at).S, row.S), SBool})
		// the same fact indexed by the source position, so that a known element of t leads to its copy
		fx.assume(T{fmt.Sprintf("(forall ((tj? %s)) (! (=> %s (= (select %s (%s tj? %s)) (select %s tj?))) :pattern ((select %s tj?))))",
			is, inRange(t.Off.S, "tj?", Add(t.Off, t.Len).S), row.S, add, Sub(at, t.Off).S, trow.S, trow.S), SBool})
		// everything else in the row is as in the old row of s
		fx.assume(T{fmt.Sprintf("(forall ((aj? %s)) (! (=> (not %s) (= (select %s aj?) (select %s aj?))) :pattern ((select %s aj?)) :pattern ((select %s aj?))))",
			is, inRange(at.S, "aj?", end.S), row.S, orow.S, row.S, orow.S), SBool})
		fx.setHeap(name, nh)
	}
	return SliceV{rbase, s.Off, nlen, Ite(fits, s.Cap, ncap), s.Typ}
}

func (fx *FuncVC) doCopy(dst SliceV, src Val, pos token.Pos) Val {
	if fx.bv {
		panic(unsupported("copy in mode bv"))
	}
	elem := under(dst.Typ).(*types.Slice).Elem()
	var sBase, sOff, sLen T
	var srcHeapStr bool
	switch s := src.(type) {
	case SliceV:
		sBase, sOff, sLen = s.Base, s.Off, s.Len
	case StrV:
		sBase, sOff, sLen = s.Base, s.Off, s.Len
		srcHeapStr = true
	}
	n := fx.define("ncopy", Ite(Lt(dst.Len, sLen, true), dst.Len, sLen))
	if fx.spec != nil {
		name := elemHeapName(elem, fx.leavesOf(elem)[0].Path)
		j := T{"cj?", SInt}
		in := fx.inRegionsElem(name, fx.frameRegions(), dst.Base, j)
		q := fmt.Sprintf("(forall ((cj? Int)) (=> (and (<= %s cj?) (< cj? %s)) %s))", dst.Off.S, Add(dst.Off, n).S, Or(Le(fx.alloc0, dst.Base, true), in).S)
		fx.oblige("frame", T{q, SBool}, pos, "copy destination is in the modifies frame")
	}
	for _, l := range fx.leavesOf(elem) {
		name := elemHeapName(elem, l.Path)
		h := fx.heap(fx.st, name, fx.heapSortElem(l.Sort))
		nh := fx.fresh(name, h.Sort)
		fx.assume(T{fmt.Sprintf("(forall ((cb? Int)) (! (=> (not (= cb? %s)) (= (select %s cb?) (select %s cb?))) :pattern ((select %s cb?))))", dst.Base.S, nh.S, h.S, nh.S), SBool})
		row := Select(nh, dst.Base)
		orow := Select(h, dst.Base)
		var srow T
		if srcHeapStr {
			srow = Select(fx.strHeap(), sBase)
		} else {
			srow = Select(h, sBase)
		}
		lo, hi := dst.Off, Add(dst.Off, n)
		fx.assume(T{fmt.Sprintf("(forall ((cj? Int)) (! (=> (and (<= %s cj?) (< cj? %s)) (= (select %s cj?) (select %s (+ cj? %s)))) :pattern ((select %s cj?))))",
			lo.S, hi.S, row.S, srow.S, Sub(sOff, dst.Off).S, row.S), SBool})
		fx.assume(T{fmt.Sprintf("(forall ((cj? Int)) (! (=> (not (and (<= %s cj?) (< cj? %s))) (= (select %s cj?) (select %s cj?))) :pattern ((select %s cj?))))",
			lo.S, hi.S, row.S, orow.S, row.S), SBool})
		fx.setHeap(name, nh)
	}
	return Sc{n, types.Typ[types.Int]}
}

// knownCall handles library functions the engine models itself.
func (fx *FuncVC) knownCall(fr *frame, fn *ssa.Function, name string, args []Val, pos token.Pos, instr ssa.Value) (Val, bool) {
	switch name {
	case "log.Fatal", "log.Fatalf", "log.Fatalln", "log.Panic", "log.Panicf", "log.Panicln", "os.Exit":
		fx.oblige("fatal", False, pos, name+" is unreachable")
		fx.st = fx.st.clone()
		fx.st.dead = true
		fx.st.pc = False
		return nil, true
	case "fmt.Sprintf", "fmt.Sprint", "fmt.Sprintln", "strconv.Itoa", "strconv.Quote", "strings.Repeat":
		fx.note("result of " + name + " treated as an arbitrary string")
		return fx.freshVal(types.Typ[types.String], "s"), true
	case "fmt.Errorf", "errors.New":
		r := fx.fresh("err", SInt)
		fx.assume(Lt(IntC(0), r, true))
		return Sc{r, fn.Signature.Results().At(0).Type()}, true
	case "sort.Search":
		return fx.sortSearch(fr, args, pos), true
	case "strings.Count":
		// strings.Count(s, "\n") is the newline count of s (the theory behind the contract builtin newlines)
		if s, ok := args[0].(StrV); ok && !fx.bv {
			if sep, ok := args[1].(StrV); ok && fx.strLits["\n"].Base.S == sep.Base.S && sep.Base.S != "" {
				fx.trusted["strings.Count(s, \"\\n\") is the number of newline bytes of s"] = true
				return Sc{fx.newlinesTerm(s.Base, s.Off, Add(s.Off, s.Len)), types.Typ[types.Int]}, true
			}
		}
		r := fx.fresh("count", fx.idxSort())
		fx.assume(Le(fx.idx(0), r, true))
		fx.note("result of strings.Count treated as an arbitrary non-negative integer (separator is not the literal \"\\n\")")
		return Sc{r, types.Typ[types.Int]}, true
	case "log.Printf", "log.Println", "log.Print", "fmt.Printf", "fmt.Println", "fmt.Print":
		return fx.freshResultOrNil(fn), true
	}
	if strings.HasPrefix(name, "fmt.Fprint") {
		return fx.freshResultOrNil(fn), true
	}
	return nil, false
}

// newlinesTerm is nlabs(base, lo, hi): the number of newline bytes of string storage `base` at the
// absolute positions lo..hi-1. Strings are immutable, so this is a function of the constant STR.
// Working with absolute positions makes the count of a substring and the count of a range of the
// enclosing string the same term. The theory is a fixed set of consequences of the recursive
// definition (each one a textbook induction); it is part of the trusted base.
func (fx *FuncVC) newlinesTerm(base, lo, hi T) T {
	if _, ok := fx.declared["nlabs"]; !ok {
		fx.declareFun("nlabs", []Sort{SInt, SInt, SInt}, SInt)
		str := fx.strHeap().S
		ax := []string{
			// empty and reversed ranges, bounds
			"(forall ((b? Int) (a? Int) (c? Int)) (! (and (<= 0 (nlabs b? a? c?)) (=> (<= c? a?) (= (nlabs b? a? c?) 0)) (=> (<= a? c?) (<= (nlabs b? a? c?) (- c? a?)))) :pattern ((nlabs b? a? c?))))",
			// one byte
			"(forall ((b? Int) (a? Int) (c? Int)) (! (=> (= c? (+ a? 1)) (= (nlabs b? a? c?) (ite (= (select (select " + str + " b?) a?) 10) 1 0))) :pattern ((nlabs b? a? c?))))",
			// no newline byte in the range
			"(forall ((b? Int) (a? Int) (c? Int)) (! (=> (forall ((j? Int)) (=> (and (<= a? j?) (< j? c?)) (not (= (select (select " + str + " b?) j?) 10)))) (= (nlabs b? a? c?) 0)) :pattern ((nlabs b? a? c?))))",
			// additivity, for adjacent ranges and for two ranges with the same start
			"(forall ((b? Int) (a? Int) (m? Int) (c? Int)) (! (=> (and (<= a? m?) (<= m? c?)) (= (nlabs b? a? c?) (+ (nlabs b? a? m?) (nlabs b? m? c?)))) :pattern ((nlabs b? a? m?) (nlabs b? m? c?))))",
			"(forall ((b? Int) (a? Int) (m? Int) (c? Int)) (! (=> (and (<= a? m?) (<= m? c?)) (= (nlabs b? a? c?) (+ (nlabs b? a? m?) (nlabs b? m? c?)))) :pattern ((nlabs b? a? m?) (nlabs b? a? c?))))",
		}
		for _, a := range ax {
			fx.assumeDef(T{a, SBool})
		}
		fx.trusted["theory of newline counting nlabs(s, lo, hi): non-negative and at most hi-lo, 0 on empty ranges and on ranges without a newline byte, one byte counts 1 iff it is '\\n', additive over adjacent ranges"] = true
	}
	return app("nlabs", SInt, base, lo, hi)
}

func (fx *FuncVC) freshResultOrNil(fn *ssa.Function) Val {
	return fx.freshResult(fn.Signature, "r")
}

// sortSearch: i := sort.Search(n, pred) satisfies 0<=i<=n, (i<n => pred(i)), (i>0 => !pred(i-1)),
// which holds for the binary search unconditionally; with a monotone pred it is the least such index.
func (fx *FuncVC) sortSearch(fr *frame, args []Val, pos token.Pos) Val {
	n := args[0].(Sc).T
	pred, ok := args[1].(FuncV)
	if !ok {
		panic(unsupported("sort.Search with a non-literal predicate"))
	}
	intT := types.Typ[types.Int]
	fx.oblige("call-pre", Le(fx.idx(0), n, true), pos, "sort.Search: n >= 0")
	r := fx.fresh("search", fx.idxSort())
	fx.assume(And(Le(fx.idx(0), r, true), Le(r, n, true)))
	evalPred := func(at T, guard T) T {
		saved := fx.st
		fx.st = saved.clone()
		fx.st.pc = And(saved.pc, guard)
		v := fx.inlineCall(fr, pred.Fn, nil, pred.Bind, []Val{Sc{at, intT}}, pos)
		res := v.(Sc).T
		// the predicate must be pure: heaps unchanged
		for name, h := range fx.st.heaps {
			if o, ok := saved.heaps[name]; ok && o.S != h.S {
				panic(unsupported("sort.Search predicate writes the heap"))
			}
		}
		fx.st = saved
		return res
	}
	lt := Lt(r, n, true)
	gt := Lt(fx.idx(0), r, true)
	p1 := evalPred(r, lt)
	fx.assume(Implies(lt, p1))
	p0 := evalPred(Sub(r, fx.idx(1)), gt)
	fx.assume(Implies(gt, Not(p0)))
	fx.trusted["sort.Search (binary-search postcondition)"] = true
	// expose the predicate for contracts: searchpred facts are available through ghost lemma below
	fx.lastSearch = &searchFact{n: n, r: r, pred: pred, fr: fr, pos: pos}
	return Sc{r, intT}
}

type searchFact struct {
	n, r T
	pred FuncV
	fr   *frame
	pos  token.Pos
}
