package vc

import (
	"fmt"
	"go/token"
	"go/types"
	"math/big"
)

// wrapInt applies Go's overflow behaviour to a mathematical result r of integer type typ (mode int).
func (fx *FuncVC) wrapInt(r T, typ types.Type, pos token.Pos) T {
	if fx.bv {
		return r
	}
	lo, hi, ok := sizedRange(typ)
	if !ok {
		if fx.spec != nil && fx.spec.Overflow && isInteger(typ) {
			min := new(big.Int).Neg(pow2(63))
			max := new(big.Int).Sub(pow2(63), big.NewInt(1))
			fx.oblige("overflow", And(Le(IntBig(min), r, true), Le(r, IntBig(max), true)), pos, "int arithmetic does not overflow")
		}
		return r
	}
	if isUnsigned(typ) {
		// modular
		if v, isLit := isIntLit(r); isLit && v >= 0 && big.NewInt(v).Cmp(hi) <= 0 {
			return r
		}
		m := new(big.Int).Add(hi, big.NewInt(1))
		return app("mod", SInt, r, IntBig(m))
	}
	if v, isLit := isIntLit(r); isLit && big.NewInt(v).Cmp(lo) >= 0 && big.NewInt(v).Cmp(hi) <= 0 {
		return r
	}
	// signed sized: overflow is an obligation
	rr := fx.define("ar", r)
	g := And(Le(IntBig(lo), rr, true), Le(rr, IntBig(hi), true))
	fx.oblige("overflow", g, pos, fmt.Sprintf("%s arithmetic stays in range", typ))
	fx.assume(g)
	return rr
}

func (fx *FuncVC) binop(op token.Token, a, b Val, ta, tb, tr types.Type, pos token.Pos) Val {
	switch op {
	case token.EQL, token.NEQ:
		var e T
		switch av := a.(type) {
		case PtrV:
			e = Eq(ptrRefLoose(av), ptrRefLoose(b.(PtrV)))
		case StrV:
			e = fx.strEq(av, b.(StrV))
		case SliceV:
			// only comparison with nil is legal
			bb := b.(SliceV)
			if bb.Base.S == "0" {
				e = Eq(av.Base, IntC(0))
			} else {
				e = Eq(bb.Base, IntC(0))
			}
		default:
			e = fx.eqVal(a, b)
		}
		if op == token.NEQ {
			e = Not(e)
		}
		return Sc{e, tr}
	}
	as, okA := a.(Sc)
	bs, okB := b.(Sc)
	if sa, isStr := a.(StrV); isStr && op == token.ADD {
		return fx.strConcat(sa, b.(StrV))
	}
	if !okA || !okB {
		panic(unsupported("binary %s on %T", op, a))
	}
	x, y := as.T, bs.T
	signed := !isUnsigned(ta)
	switch op {
	case token.LSS:
		return Sc{Lt(x, y, signed), tr}
	case token.LEQ:
		return Sc{Le(x, y, signed), tr}
	case token.GTR:
		return Sc{Lt(y, x, signed), tr}
	case token.GEQ:
		return Sc{Le(y, x, signed), tr}
	}
	if x.Sort == SBool {
		switch op {
		case token.AND, token.LAND:
			return Sc{And(x, y), tr}
		case token.OR, token.LOR:
			return Sc{Or(x, y), tr}
		}
	}
	if fx.bv {
		return Sc{fx.binopBV(op, x, y, ta, tb, pos), tr}
	}
	var r T
	switch op {
	case token.ADD:
		r = fx.wrapInt(Add(x, y), tr, pos)
	case token.SUB:
		r = fx.wrapInt(Sub(x, y), tr, pos)
	case token.MUL:
		r = fx.wrapInt(Mul(x, y), tr, pos)
	case token.QUO:
		fx.oblige("div", Not(Eq(y, IntC(0))), pos, "divisor is not zero")
		fx.assume(Not(Eq(y, IntC(0))))
		if isUnsigned(tr) {
			r = app("div", SInt, x, y)
		} else if v, ok := isIntLit(y); ok && v > 0 {
			r = Ite(Le(IntC(0), x, true), app("div", SInt, x, y), Neg(app("div", SInt, Neg(x), y)))
			r = fx.wrapInt(r, tr, pos)
		} else {
			r = fx.wrapInt(truncDivInt(x, y), tr, pos)
		}
	case token.REM:
		fx.oblige("div", Not(Eq(y, IntC(0))), pos, "divisor is not zero")
		fx.assume(Not(Eq(y, IntC(0))))
		if isUnsigned(tr) {
			r = app("mod", SInt, x, y)
		} else if v, ok := isIntLit(y); ok && v > 0 {
			r = Ite(Le(IntC(0), x, true), app("mod", SInt, x, y), Neg(app("mod", SInt, Neg(x), y)))
		} else {
			r = truncRemInt(x, y)
		}
	case token.SHL:
		if c, ok := isIntLit(y); ok && c >= 0 && c < 63 {
			r = fx.wrapInt(Mul(x, IntBig(pow2(uint(c)))), tr, pos)
		} else {
			fx.declareFun("pow2", []Sort{SInt}, SInt)
			fx.pow2Axioms()
			r = fx.wrapInt(app("*", SInt, x, app("pow2", SInt, y)), tr, pos)
		}
	case token.SHR:
		if c, ok := isIntLit(y); ok && c >= 0 && c < 63 {
			r = app("div", SInt, x, IntBig(pow2(uint(c))))
		} else {
			fx.declareFun("pow2", []Sort{SInt}, SInt)
			fx.pow2Axioms()
			r = app("div", SInt, x, app("pow2", SInt, y))
		}
	case token.AND:
		r = fx.bitAndInt(x, y, tr)
	case token.AND_NOT:
		if c, ok := isIntLit(y); ok && isMask(c) {
			r = Sub(x, app("mod", SInt, x, IntC(c+1)))
		} else {
			r = fx.uninterp("bitandnot", x, y)
		}
	case token.OR:
		if c, ok := isIntLit(y); ok && isMask(c) {
			// x | (2^k-1): the low k bits are set, the rest is kept (two's complement, any sign)
			r = Add(Sub(x, app("mod", SInt, x, IntC(c+1))), IntC(c))
			break
		}
		r = fx.uninterp("bitor", x, y)
		if isUnsigned(tr) || true {
			// x|y >= max(x,y) for non-negative operands; keep only type range
		}
		if f, ok := fx.rangeFact(r, tr); ok {
			fx.assume(f)
		}
	case token.XOR:
		r = fx.uninterp("bitxor", x, y)
		if f, ok := fx.rangeFact(r, tr); ok {
			fx.assume(f)
		}
	default:
		panic(unsupported("binary op %s", op))
	}
	return Sc{r, tr}
}

func ptrRefLoose(p PtrV) T {
	if p.Kind == pkNil {
		return IntC(0)
	}
	if p.Kind == pkHeap && len(p.Path) == 0 {
		return p.Ref
	}
	panic(unsupported("comparison of interior pointers"))
}

func isMask(c int64) bool { return c > 0 && (c&(c+1)) == 0 }

func (fx *FuncVC) bitAndInt(x, y T, tr types.Type) T {
	if c, ok := isIntLit(y); ok && isMask(c) {
		return app("mod", SInt, x, IntC(c+1))
	}
	if c, ok := isIntLit(x); ok && isMask(c) {
		return app("mod", SInt, y, IntC(c+1))
	}
	r := fx.uninterp("bitand", x, y)
	if f, ok := fx.rangeFact(r, tr); ok {
		fx.assume(f)
	}
	return r
}

func (fx *FuncVC) uninterp(name string, x, y T) T {
	fx.declareFun(name, []Sort{SInt, SInt}, SInt)
	fx.note("bit operation " + name + " treated as an uninterpreted function in mode int")
	return app(name, SInt, x, y)
}

func (fx *FuncVC) pow2Axioms() {
	if _, ok := fx.declared["$pow2ax"]; ok {
		return
	}
	fx.declared["$pow2ax"] = SBool
	for i := 0; i <= 64; i++ {
		fx.assumeRaw(Eq(app("pow2", SInt, IntC(int64(i))), IntBig(pow2(uint(i)))))
	}
}

func (fx *FuncVC) note(s string) {
	for _, n := range fx.notes {
		if n == s {
			return
		}
	}
	fx.notes = append(fx.notes, s)
}

// binopBV: bit-vector arithmetic with Go shift semantics.
func (fx *FuncVC) binopBV(op token.Token, x, y T, ta, tb types.Type, pos token.Pos) T {
	signed := !isUnsigned(ta)
	w := x.Sort.Width()
	switch op {
	case token.ADD:
		return app("bvadd", x.Sort, x, y)
	case token.SUB:
		return app("bvsub", x.Sort, x, y)
	case token.MUL:
		return app("bvmul", x.Sort, x, y)
	case token.QUO:
		fx.oblige("div", Not(Eq(y, BVC(big.NewInt(0), w))), pos, "divisor is not zero")
		if signed {
			return app("bvsdiv", x.Sort, x, y)
		}
		return app("bvudiv", x.Sort, x, y)
	case token.REM:
		fx.oblige("div", Not(Eq(y, BVC(big.NewInt(0), w))), pos, "divisor is not zero")
		if signed {
			return app("bvsrem", x.Sort, x, y)
		}
		return app("bvurem", x.Sort, x, y)
	case token.AND:
		return app("bvand", x.Sort, x, y)
	case token.OR:
		return app("bvor", x.Sort, x, y)
	case token.XOR:
		return app("bvxor", x.Sort, x, y)
	case token.AND_NOT:
		return app("bvand", x.Sort, x, app("bvnot", y.Sort, y))
	case token.SHL, token.SHR:
		cnt := fx.shiftCount(y, tb, w)
		if op == token.SHL {
			return app("bvshl", x.Sort, x, cnt)
		}
		if signed {
			return app("bvashr", x.Sort, x, cnt)
		}
		return app("bvlshr", x.Sort, x, cnt)
	}
	panic(unsupported("bv binary op %s", op))
}

// shiftCount converts a shift count to width w, saturating (SMT shifts by >= w already give 0 / sign).
func (fx *FuncVC) shiftCount(y T, ty types.Type, w int) T {
	yw := y.Sort.Width()
	switch {
	case yw == w:
		return y
	case yw < w:
		return T{fmt.Sprintf("((_ zero_extend %d) %s)", w-yw, y.S), SBV(w)}
	default:
		// saturate: if y >= w then w else truncate
		big := app("bvuge", SBool, y, BVC(bigInt(int64(w)), yw))
		tr := T{fmt.Sprintf("((_ extract %d 0) %s)", w-1, y.S), SBV(w)}
		return Ite(big, BVC(bigInt(int64(w)), w), tr)
	}
}

func (fx *FuncVC) convert(v Val, from, to types.Type, pos token.Pos) Val {
	switch x := v.(type) {
	case Sc:
		if isInteger(from) && isInteger(to) {
			return Sc{fx.convInt(x.T, from, to), to}
		}
		if _, ok := under(to).(*types.Pointer); ok {
			return Sc{x.T, to}
		}
		if isInteger(from) && isString(to) {
			panic(unsupported("string(rune) conversion"))
		}
		return Sc{x.T, to}
	case StrV:
		if sl, ok := under(to).(*types.Slice); ok {
			// []byte(s): fresh array with the same bytes
			return fx.strToBytes(x, sl, to)
		}
		return x
	case SliceV:
		if isString(to) {
			return fx.bytesToStr(x)
		}
		x.Typ = to
		return x
	case PtrV:
		x.Typ = to
		return x
	}
	panic(unsupported("conversion %s -> %s", from, to))
}

func (fx *FuncVC) convInt(t T, from, to types.Type) T {
	if fx.bv {
		fw, tw := t.Sort.Width(), intWidth(to)
		switch {
		case fw == tw:
			return t
		case fw > tw:
			return T{fmt.Sprintf("((_ extract %d 0) %s)", tw-1, t.S), SBV(tw)}
		case isUnsigned(from):
			return T{fmt.Sprintf("((_ zero_extend %d) %s)", tw-fw, t.S), SBV(tw)}
		default:
			return T{fmt.Sprintf("((_ sign_extend %d) %s)", tw-fw, t.S), SBV(tw)}
		}
	}
	flo, fhi, fok := sizedRange(from)
	tlo, thi, tok := sizedRange(to)
	if !tok {
		// to is int/int64: value preserved unless from is uint/uint64 above MaxInt64 (ignored: treated as mathematical)
		if fok && isUnsigned(from) && intWidth(from) == 64 {
			// uint64 -> int: two's complement
			return Ite(Lt(t, IntBig(pow2(63)), true), t, Sub(t, IntBig(pow2(64))))
		}
		return t
	}
	if fok && flo.Cmp(tlo) >= 0 && fhi.Cmp(thi) <= 0 {
		return t
	}
	w := uint(intWidth(to))
	if isUnsigned(to) {
		return app("mod", SInt, t, IntBig(pow2(w)))
	}
	// signed wrap
	return Sub(app("mod", SInt, Add(t, IntBig(pow2(w-1))), IntBig(pow2(w))), IntBig(pow2(w-1)))
}

func (fx *FuncVC) strConcat(a, b StrV) Val {
	if fx.bv {
		panic(unsupported("string concatenation in mode bv"))
	}
	base := fx.fresh("cat", SInt)
	fx.assume(Lt(base, IntC(0), true))
	h := fx.strHeap()
	k := fx.freshBound("k")
	row := Select(h, base)
	q1 := T{fmt.Sprintf("(forall ((%s Int)) (=> (and (<= 0 %s) (< %s %s)) (= (select %s %s) (select (select STR %s) (+ %s %s)))))",
		k.S, k.S, k.S, a.Len.S, row.S, k.S, a.Base.S, a.Off.S, k.S), SBool}
	q2 := T{fmt.Sprintf("(forall ((%s Int)) (=> (and (<= 0 %s) (< %s %s)) (= (select %s (+ %s %s)) (select (select STR %s) (+ %s %s)))))",
		k.S, k.S, k.S, b.Len.S, row.S, a.Len.S, k.S, b.Base.S, b.Off.S, k.S), SBool}
	fx.assume(q1)
	fx.assume(q2)
	return StrV{base, IntC(0), Add(a.Len, b.Len)}
}

func (fx *FuncVC) strToBytes(s StrV, sl *types.Slice, to types.Type) Val {
	base := fx.allocArray(sl.Elem(), "bytes")
	name := elemHeapName(sl.Elem(), "")
	h := fx.heap(fx.st, name, fx.heapSortElem(fx.intSortOf(sl.Elem())))
	if !fx.bv {
		k := fx.freshBound("k")
		q := T{fmt.Sprintf("(forall ((%s Int)) (=> (and (<= 0 %s) (< %s %s)) (= (select (select %s %s) %s) (select (select STR %s) (+ %s %s)))))",
			k.S, k.S, k.S, s.Len.S, h.S, base.S, k.S, s.Base.S, s.Off.S, k.S), SBool}
		nh := fx.fresh(name, h.Sort)
		// nh equals h except row base, which holds the bytes
		fx.assumeRaw(T{fmt.Sprintf("(forall ((r Int)) (=> (not (= r %s)) (= (select %s r) (select %s r))))", base.S, nh.S, h.S), SBool})
		fx.assume(T{replaceAll(q.S, h.S, nh.S), SBool})
		fx.setHeap(name, nh)
	}
	return SliceV{base, fx.idx(0), s.Len, s.Len, to}
}

func (fx *FuncVC) bytesToStr(b SliceV) Val {
	if fx.bv {
		panic(unsupported("string(bytes) in mode bv"))
	}
	base := fx.fresh("str", SInt)
	fx.assume(Lt(base, IntC(0), true))
	elem := under(b.Typ).(*types.Slice).Elem()
	h := fx.heap(fx.st, elemHeapName(elem, ""), fx.heapSortElem(fx.intSortOf(elem)))
	k := fx.freshBound("k")
	q := T{fmt.Sprintf("(forall ((%s Int)) (=> (and (<= 0 %s) (< %s %s)) (= (select (select STR %s) %s) (select (select %s %s) (+ %s %s)))))",
		k.S, k.S, k.S, b.Len.S, base.S, k.S, h.S, b.Base.S, b.Off.S, k.S), SBool}
	fx.assume(q)
	return StrV{base, IntC(0), b.Len}
}

func replaceAll(s, old, new string) string {
	out := ""
	for {
		i := indexOf(s, old)
		if i < 0 {
			return out + s
		}
		out += s[:i] + new
		s = s[i+len(old):]
	}
}

func indexOf(s, sub string) int {
	for i := 0; i+len(sub) <= len(s); i++ {
		if s[i:i+len(sub)] == sub {
			return i
		}
	}
	return -1
}
