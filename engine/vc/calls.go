package vc

import (
	"fmt"
	"go/token"
	"go/types"
	"strings"

	"golang.org/x/tools/go/ssa"
)

// region is a set of heap locations named by a modifies item.
type region struct {
	elem   bool
	root   types.Type // element type or object type
	prefix string     // leaf-path prefix covered
	base   T          // elem: backing array
	lo, hi T          // elem: absolute index range [lo,hi)
	ref    T          // obj: object reference
	all    bool       // every location of heaps with this root/prefix (used for "anything reachable")
	cell   *Cell      // a local variable of the caller reached through a pointer argument
}

func (fx *FuncVC) calleeVal(fr *frame, c *ssa.CallCommon) Val {
	return fx.val(fr, c.Value)
}

func (fx *FuncVC) execCall(fr *frame, c *ssa.CallCommon, pos token.Pos, instr ssa.Value) Val {
	if c.IsInvoke() {
		return fx.opaqueCall(fr, c, pos, instr, "interface method "+c.Method.Name())
	}
	if b, ok := c.Value.(*ssa.Builtin); ok {
		return fx.builtin(fr, b, c, pos, instr)
	}
	var args []Val
	for _, a := range c.Args {
		args = append(args, fx.val(fr, a))
	}
	fv := fx.val(fr, c.Value)
	return fx.callValue(fr, fv, args, pos, instr)
}

// callValue calls a function value with evaluated arguments.
func (fx *FuncVC) callValue(fr *frame, fv Val, args []Val, pos token.Pos, instr ssa.Value) Val {
	f, ok := fv.(FuncV)
	if !ok {
		if fx.spec != nil && fx.spec.Options["callback-frame"] != "" {
			// a callback (function value from a field or parameter): under the stated assumption it writes
			// nothing this function reads; a nil function value panics
			if sc, isSc := fv.(Sc); isSc && sc.T.Sort == SInt {
				fx.oblige("nil", Not(Eq(sc.T, IntC(0))), pos, "function value is not nil")
				fx.assume(Not(Eq(sc.T, IntC(0))))
			}
			fx.trusted["ASSUMED (option callback-frame): functions called through function values (callbacks such as the parser listener) do not write memory this function reads"] = true
			if call, isCall := instr.(*ssa.Call); isCall {
				return fx.freshResult(call.Call.Signature(), "cb")
			}
			return nil
		}
		panic(unsupported("call of a non-static function value"))
	}
	fn := f.Fn
	name := fx.eng.funcKey(fn)
	// engine-known functions
	if r, handled := fx.knownCall(fr, fn, name, args, pos, instr); handled {
		return r
	}
	spec, spkg := fx.eng.specFor(fn)
	if spec != nil && !spec.Inline {
		return fx.modularCall(fn, spec, spkg, args, pos)
	}
	if fn.Blocks == nil {
		panic(unsupported("call of %s: no body and no contract", name))
	}
	isClosure := fn.Parent() != nil
	if !isClosure && (spec == nil || !spec.Inline) {
		if spec == nil && smallLoopFree(fn) {
			// a small accessor-like function of the repository without a contract (no loop, no call of
			// itself, a handful of blocks): executed in place, exactly - so that a refactoring which
			// routes a proved function through such a helper does not push it out of the subset
			fx.note(fmt.Sprintf("%s has no contract and is executed in place (small, loop-free)", name))
			return fx.inlineCall(fr, fn, nil, f.Bind, args, pos)
		}
		panic(unsupported("call of %s: callee has no contract (add a contract or mark it inline)", name))
	}
	return fx.inlineCall(fr, fn, spec, f.Bind, args, pos)
}

func (fx *FuncVC) inlineCall(fr *frame, fn *ssa.Function, spec *FuncSpec, bind, args []Val, pos token.Pos) Val {
	if fx.depth > 8 {
		panic(unsupported("inlining too deep at %s", fn.Name()))
	}
	for p := fr; p != nil; p = p.parent {
		if p.fn == fn {
			panic(unsupported("recursive inlining of %s (give it a contract)", fn.Name()))
		}
	}
	fx.depth++
	defer func() { fx.depth-- }()
	nfr := &frame{fn: fn, spec: spec, regs: map[ssa.Value]Val{}, cells: map[*ssa.Alloc]*Cell{}, params: args, bind: bind,
		outer: fx.active, parent: fr, callPos: pos}
	savedDefers := fx.st.defers
	fx.st.defers = nil
	savedActive := fx.active
	rets := fx.runBody(nfr)
	fx.active = savedActive
	if len(rets) == 0 {
		fx.st = fx.st.clone()
		fx.st.dead = true
		fx.st.pc = False
		return nil
	}
	var sts []*State
	for _, r := range rets {
		sts = append(sts, r.st)
	}
	merged := fx.mergeStates(sts, "ret_"+fn.Name())
	merged.defers = savedDefers
	fx.st = merged
	nres := fn.Signature.Results().Len()
	if nres == 0 {
		return nil
	}
	out := make([]Val, nres)
	for i := 0; i < nres; i++ {
		m := rets[len(rets)-1].vals[i]
		for k := len(rets) - 2; k >= 0; k-- {
			if !valSame(rets[k].vals[i], m) {
				m = fx.iteVal(rets[k].st.pc, rets[k].vals[i], m)
			}
		}
		out[i] = fx.defineVal("r_"+fn.Name(), m)
	}
	if nres == 1 {
		return out[0]
	}
	return TupleV{out}
}

// modularCall applies a callee contract: assert pre, havoc frame, assume post.
func (fx *FuncVC) modularCall(fn *ssa.Function, spec *FuncSpec, spkg *PkgInfo, args []Val, pos token.Pos) Val {
	pre := fx.st.clone()
	env := &Env{fx: fx, st: pre, vars: map[string]Val{}, pkg: spkg}
	fx.bindParams(env, fn, args)
	// implicit: pointer receiver is not nil
	if fn.Signature.Recv() != nil && len(args) > 0 && spec.Options["nilable-receiver"] == "" {
		if p, ok := args[0].(PtrV); ok && p.Kind != pkCell && p.Kind != pkElem && len(p.Path) == 0 {
			fx.oblige("call-pre", Not(Eq(ptrRefLoose(p), IntC(0))), pos, "receiver of "+fn.Name()+" is not nil")
		}
	}
	for _, r := range spec.Requires {
		for _, cj := range conjuncts(r.E) {
			g := fx.evalBool(env, cj, r)
			fx.oblige("call-pre", g, pos, fmt.Sprintf("precondition of %s: %s", spec.Name, ExprString(cj)))
			fx.assume(g)
		}
	}
	// frame
	regions := fx.evalRegions(env, spec.Modifies)
	resT := fn.Signature.Results()
	heaps := map[string]Sort{}
	for _, rg := range regions {
		fx.heapsOfRegion(rg, heaps)
	}
	for i := 0; i < resT.Len(); i++ {
		fx.heapsReachable(resT.At(i).Type(), heaps, map[string]bool{}, 0)
	}
	if !spec.Pure {
		fx.havocHeaps(heaps, regions, pre, "call")
		for _, rg := range regions {
			if rg.cell != nil {
				// the callee may assign the caller's variable it was given a pointer to
				fx.storePtr(PtrV{Kind: pkCell, Cell: rg.cell, Root: rg.cell.Typ}, fx.freshVal(rg.cell.Typ, rg.cell.Name))
			}
		}
		na := fx.fresh("alloc", SInt)
		fx.assume(Le(fx.st.alloc, na, true))
		fx.st.alloc = na
		for _, hs := range fx.active {
			if !hs.alloc {
				hs.alloc = true
				fx.dirty = true
			}
		}
	}
	// results
	var results []Val
	for i := 0; i < resT.Len(); i++ {
		if spec.Pure {
			if v, ok := fx.pureApp(fn, i, args); ok {
				results = append(results, v)
				continue
			}
		}
		results = append(results, fx.freshVal(resT.At(i).Type(), "r_"+fn.Name()))
	}
	post := &Env{fx: fx, st: fx.st, vars: map[string]Val{}, pkg: spkg, old: env}
	fx.bindParams(post, fn, args)
	fx.bindResults(post, fn, results)
	for _, en := range spec.Ensures {
		fx.assume(fx.evalBool(post, en.E, en))
	}
	if spec.Trusted {
		key := fx.eng.funcKey(fn)
		if len(spec.Unchecked) > 0 {
			key += " (" + strings.Join(spec.Unchecked, "; ") + ")"
		}
		fx.trusted[key] = true
	}
	switch len(results) {
	case 0:
		return nil
	case 1:
		return results[0]
	}
	return TupleV{results}
}

func (fx *FuncVC) evalBool(env *Env, e Expr, c *Clause) (t T) {
	defer func() {
		if r := recover(); r != nil {
			if ce, ok := r.(contractErr); ok {
				panic(contractErr(fmt.Sprintf("%s:%d: %s", shortFile(c.File), c.Line, string(ce))))
			}
			panic(r)
		}
	}()
	return env.boolT(e)
}

func shortFile(f string) string {
	parts := strings.Split(f, "/")
	if len(parts) > 2 {
		parts = parts[len(parts)-2:]
	}
	return strings.Join(parts, "/")
}

func (fx *FuncVC) bindParams(env *Env, fn *ssa.Function, args []Val) {
	if len(fn.Params) == 0 {
		// functions without a body (library functions): names from the signature
		k := 0
		if r := fn.Signature.Recv(); r != nil && k < len(args) {
			env.vars[r.Name()] = args[k]
			k++
		}
		ps := fn.Signature.Params()
		for i := 0; i < ps.Len() && k < len(args); i++ {
			env.vars[ps.At(i).Name()] = args[k]
			k++
		}
		return
	}
	for i, p := range fn.Params {
		if i < len(args) {
			env.vars[p.Name()] = args[i]
		}
	}
}

func (fx *FuncVC) bindResults(env *Env, fn *ssa.Function, results []Val) {
	res := fn.Signature.Results()
	for i := 0; i < res.Len(); i++ {
		if n := res.At(i).Name(); n != "" && n != "_" {
			env.vars[n] = results[i]
		}
		env.vars[fmt.Sprintf("result%d", i)] = results[i]
	}
	if res.Len() == 1 {
		env.vars["result"] = results[0]
	}
}

// evalRegions evaluates modifies items in env.
func (fx *FuncVC) evalRegions(env *Env, items []*Clause) []region {
	var out []region
	for _, it := range items {
		out = append(out, fx.evalRegion(env, it.E, it)...)
	}
	return out
}

func (fx *FuncVC) evalRegion(env *Env, e Expr, c *Clause) (out []region) {
	defer func() {
		if r := recover(); r != nil {
			if ce, ok := r.(contractErr); ok {
				panic(contractErr(fmt.Sprintf("%s:%d: modifies: %s", shortFile(c.File), c.Line, string(ce))))
			}
			panic(r)
		}
	}()
	switch x := e.(type) {
	case *SliceE:
		v := env.eval(x)
		sv, ok := v.(SliceV)
		if !ok {
			cfail("modifies item %s is not a slice", ExprString(e))
		}
		elem := under(sv.Typ).(*types.Slice).Elem()
		return []region{{elem: true, root: elem, base: sv.Base, lo: sv.Off, hi: Add(sv.Off, sv.Len)}}
	case *IndexE:
		b := env.eval(x.X)
		if p, ok := b.(PtrV); ok {
			b = fx.loadPtr(env.st, p)
		}
		sv, ok := b.(SliceV)
		if !ok {
			cfail("modifies item %s: not a slice element", ExprString(e))
		}
		i := env.idxT(x.I)
		elem := under(sv.Typ).(*types.Slice).Elem()
		ix := Add(sv.Off, i)
		return []region{{elem: true, root: elem, base: sv.Base, lo: ix, hi: Add(ix, fx.idx(1))}}
	case *Unary:
		if x.Op == "*" {
			p, ok := env.eval(x.X).(PtrV)
			if ok && p.Kind == pkCell && len(p.Path) == 0 {
				return []region{{cell: p.Cell}}
			}
			if !ok || p.Kind != pkHeap {
				cfail("modifies *%s: not a heap pointer", ExprString(x.X))
			}
			prefix, _ := leafPathPrefix(p.Root, p.Path)
			return []region{{root: p.Root, prefix: prefix, ref: p.Ref}}
		}
	case *FieldE:
		b := env.eval(x.X)
		p, ok := b.(PtrV)
		if !ok || p.Kind != pkHeap {
			cfail("modifies %s: base is not a heap pointer", ExprString(e))
		}
		t := typeAt(p.Root, p.Path)
		path, ok := fieldIndex(t, x.Name)
		if !ok {
			cfail("no field %s", x.Name)
		}
		np := p
		np.Path = append([]Step(nil), p.Path...)
		for _, i := range path {
			np.Path = append(np.Path, Step{Field: i})
		}
		prefix, _ := leafPathPrefix(np.Root, np.Path)
		return []region{{root: np.Root, prefix: prefix, ref: np.Ref}}
	case *Ident:
		// a slice variable: its whole capacity; a pointer: the object
		v := env.eval(x)
		switch v := v.(type) {
		case SliceV:
			elem := under(v.Typ).(*types.Slice).Elem()
			return []region{{elem: true, root: elem, base: v.Base, lo: v.Off, hi: Add(v.Off, v.Cap)}}
		case PtrV:
			if v.Kind == pkHeap {
				prefix, _ := leafPathPrefix(v.Root, v.Path)
				return []region{{root: v.Root, prefix: prefix, ref: v.Ref}}
			}
			if v.Kind == pkCell && len(v.Path) == 0 {
				return []region{{cell: v.Cell}}
			}
		}
	case *CallE:
		if x.Fun == "fields" && len(x.Args) == 2 { // fields(T, f): field f of every object of type T (coarse frame)
			tid, ok1 := x.Args[0].(*Ident)
			fid, ok2 := x.Args[1].(*Ident)
			if ok1 && ok2 {
				if t := fx.eng.resolveType(env.pkg, tid.Name); t != nil {
					if path, ok := fieldIndex(t, fid.Name); ok {
						var steps []Step
						for _, i := range path {
							steps = append(steps, Step{Field: i})
						}
						prefix, _ := leafPathPrefix(t, steps)
						return []region{{root: t, prefix: prefix, all: true}}
					}
				}
			}
		}
		if x.Fun == "elems" { // elems(T): every element of every []T (coarse frame)
			if id, ok := x.Args[0].(*Ident); ok {
				t := fx.eng.resolveType(env.pkg, id.Name)
				if t != nil {
					return []region{{elem: true, root: t, all: true}}
				}
			}
		}
	}
	cfail("unsupported modifies item %s", ExprString(e))
	return nil
}

// heapsOfRegion adds the heap names a region covers.
func (fx *FuncVC) heapsOfRegion(rg region, out map[string]Sort) {
	if rg.cell != nil {
		return
	}
	if rg.elem {
		for _, l := range fx.leavesOf(rg.root) {
			out[elemHeapName(rg.root, l.Path)] = fx.heapSortElem(l.Sort)
		}
		return
	}
	sub := rg.root
	// leaves below prefix
	for _, l := range fx.leavesOf(sub) {
		if strings.HasPrefix(l.Path, rg.prefix) {
			out[objHeapName(rg.root, l.Path)] = fx.heapSortObj(l.Sort)
		}
	}
}

// heapsReachable adds heaps that can hold memory reachable from a value of type t.
func (fx *FuncVC) heapsReachable(t types.Type, out map[string]Sort, seen map[string]bool, depth int) {
	if depth > 3 {
		return
	}
	switch u := under(t).(type) {
	case *types.Slice:
		k := "sl:" + typeKey(u.Elem())
		if seen[k] {
			return
		}
		seen[k] = true
		for _, l := range fx.leavesOf(u.Elem()) {
			out[elemHeapName(u.Elem(), l.Path)] = fx.heapSortElem(l.Sort)
		}
		fx.heapsReachable(u.Elem(), out, seen, depth+1)
	case *types.Pointer:
		k := "p:" + typeKey(u.Elem())
		if seen[k] {
			return
		}
		seen[k] = true
		func() {
			defer func() { recover() }()
			for _, l := range fx.leavesOf(u.Elem()) {
				out[objHeapName(u.Elem(), l.Path)] = fx.heapSortObj(l.Sort)
			}
			fx.heapsReachable(u.Elem(), out, seen, depth+1)
		}()
	case *types.Struct:
		for i := 0; i < u.NumFields(); i++ {
			fx.heapsReachable(u.Field(i).Type(), out, seen, depth+1)
		}
	}
}

// inRegions builds the condition "location (heap name, ref/base, idx) lies in one of the regions".
func (fx *FuncVC) inRegionsElem(name string, regions []region, b, j T) T {
	var cs []T
	for _, rg := range regions {
		if !rg.elem || rg.cell != nil {
			continue
		}
		covers := false
		for _, l := range fx.leavesOf(rg.root) {
			if elemHeapName(rg.root, l.Path) == name {
				covers = true
			}
		}
		if !covers {
			continue
		}
		if rg.all {
			return True
		}
		cs = append(cs, And(Eq(b, rg.base), Le(rg.lo, j, true), Lt(j, rg.hi, true)))
	}
	return Or(cs...)
}

func (fx *FuncVC) inRegionsObj(name string, regions []region, r T) T {
	var cs []T
	for _, rg := range regions {
		if rg.elem || rg.cell != nil {
			continue
		}
		covers := false
		for _, l := range fx.leavesOf(rg.root) {
			if strings.HasPrefix(l.Path, rg.prefix) && objHeapName(rg.root, l.Path) == name {
				covers = true
			}
		}
		if !covers {
			continue
		}
		if rg.all {
			return True
		}
		cs = append(cs, Eq(r, rg.ref))
	}
	return Or(cs...)
}

// havocHeaps replaces the named heaps by fresh ones that agree with the old ones outside the
// regions, for every location allocated before `pre`.
func (fx *FuncVC) havocHeaps(heaps map[string]Sort, regions []region, pre *State, why string) {
	var names []string
	for n := range heaps {
		names = append(names, n)
	}
	sortStrings(names)
	for _, n := range names {
		s := heaps[n]
		old := fx.heap(fx.st, n, s)
		nh := fx.fresh(n, s)
		fx.frameAxiom(n, old, nh, regions, pre.alloc)
		fx.setHeap(n, nh)
	}
}

func (fx *FuncVC) frameAxiom(name string, old, nh T, regions []region, allocBefore T) {
	if strings.HasPrefix(name, "HE_") {
		b := T{"fb?", SInt}
		j := T{"fj?", fx.idxSort()}
		in := fx.inRegionsElem(name, regions, b, j)
		if in.S == "true" {
			return
		}
		newSel := Select(Select(nh, b), j)
		oldSel := Select(Select(old, b), j)
		body := Implies(And(Lt(b, allocBefore, true), Not(in)), Eq(newSel, oldSel))
		q := fmt.Sprintf("(forall ((fb? Int) (fj? %s)) (! %s :pattern (%s) :pattern (%s)))", fx.idxSort(), body.S, newSel.S, oldSel.S)
		fx.assume(T{q, SBool})
		// rows of arrays not mentioned at all are preserved wholesale (helps the solvers a lot)
		if !hasRegionFor(fx, name, regions) {
			rowQ := fmt.Sprintf("(forall ((fb? Int)) (! (=> (< fb? %s) (= (select %s fb?) (select %s fb?))) :pattern ((select %s fb?)) :pattern ((select %s fb?))))",
				allocBefore.S, nh.S, old.S, nh.S, old.S)
			fx.assume(T{rowQ, SBool})
		} else {
			// a row is preserved wholesale unless it is the backing array of a NON-EMPTY region
			var neq []T
			for _, rg := range regions {
				if rg.elem && !rg.all && rg.cell == nil {
					for _, l := range fx.leavesOf(rg.root) {
						if elemHeapName(rg.root, l.Path) == name {
							neq = append(neq, Or(Not(Eq(b, rg.base)), Le(rg.hi, rg.lo, true)))
						}
					}
				}
			}
			rowQ := fmt.Sprintf("(forall ((fb? Int)) (! (=> (and (< fb? %s) %s) (= (select %s fb?) (select %s fb?))) :pattern ((select %s fb?)) :pattern ((select %s fb?))))",
				allocBefore.S, And(neq...).S, nh.S, old.S, nh.S, old.S)
			fx.assume(T{rowQ, SBool})
		}
		return
	}
	r := T{"fr?", SInt}
	in := fx.inRegionsObj(name, regions, r)
	if in.S == "true" {
		return
	}
	newSel := Select(nh, r)
	oldSel := Select(old, r)
	body := Implies(And(Lt(r, allocBefore, true), Not(in)), Eq(newSel, oldSel))
	q := fmt.Sprintf("(forall ((fr? Int)) (! %s :pattern (%s) :pattern (%s)))", body.S, newSel.S, oldSel.S)
	fx.assume(T{q, SBool})
}

func hasRegionFor(fx *FuncVC, name string, regions []region) bool {
	for _, rg := range regions {
		if !rg.elem || rg.cell != nil {
			continue
		}
		for _, l := range fx.leavesOf(rg.root) {
			if elemHeapName(rg.root, l.Path) == name {
				return true
			}
		}
	}
	return false
}

func sortStrings(s []string) {
	for i := 1; i < len(s); i++ {
		for j := i; j > 0 && s[j] < s[j-1]; j-- {
			s[j], s[j-1] = s[j-1], s[j]
		}
	}
}

// frameCheck obliges a store target to be inside the function's frame (or freshly allocated).
func (fx *FuncVC) frameCheck(p PtrV, pos token.Pos) {
	if p.Kind == pkCell || p.Kind == pkNil {
		return
	}
	if fx.spec == nil {
		return
	}
	prefix, _ := leafPathPrefix(p.Root, p.Path)
	target := typeAt(p.Root, p.Path)
	var leaf string
	func() {
		defer func() { recover() }()
		ls := fx.leavesOf(target)
		if len(ls) > 0 {
			leaf = ls[0].Path
		}
	}()
	if p.Kind == pkElem {
		name := elemHeapName(p.Root, prefix+leaf)
		in := fx.inRegionsElem(name, fx.frameRegions(), p.Base, p.Idx)
		fx.oblige("frame", Or(Le(fx.alloc0, p.Base, true), in), pos, "store target is in the modifies frame or fresh")
		return
	}
	name := objHeapName(p.Root, prefix+leaf)
	in := fx.inRegionsObj(name, fx.frameRegions(), p.Ref)
	fx.oblige("frame", Or(Le(fx.alloc0, p.Ref, true), in), pos, "store target is in the modifies frame or fresh")
}

func (fx *FuncVC) frameRegions() []region { return fx.regions }

// opaqueCall models a call whose effect is unknown but which cannot touch memory we reason about:
// the result is fresh. Only used for whitelisted pure library functions.
func (fx *FuncVC) opaqueCall(fr *frame, c *ssa.CallCommon, pos token.Pos, instr ssa.Value, why string) Val {
	// error.Error(): an arbitrary string, no effect on memory (the convention every error type follows)
	if c.IsInvoke() && c.Method.Name() == "Error" && c.Signature().Params().Len() == 0 && c.Signature().Results().Len() == 1 &&
		isString(c.Signature().Results().At(0).Type()) {
		fx.note("error.Error() treated as returning an arbitrary string without side effects")
		return fx.freshVal(types.Typ[types.String], "errmsg")
	}
	panic(unsupported("call through %s", why))
}

func (fx *FuncVC) freshResult(sig *types.Signature, hint string) Val {
	res := sig.Results()
	var vals []Val
	for i := 0; i < res.Len(); i++ {
		vals = append(vals, fx.freshVal(res.At(i).Type(), hint))
	}
	switch len(vals) {
	case 0:
		return nil
	case 1:
		return vals[0]
	}
	return TupleV{vals}
}

// pureApp is result i of a pure function as an uninterpreted function of its (scalar or string)
// arguments, so that two calls with the same arguments agree and contracts can name the result.
func (fx *FuncVC) pureApp(fn *ssa.Function, i int, args []Val) (Val, bool) {
	rt := fn.Signature.Results().At(i).Type()
	if b, isBasic := under(rt).(*types.Basic); !isBasic || b.Info()&(types.IsBoolean|types.IsInteger) == 0 {
		return nil, false
	}
	sort, ok := fx.scalarSort(rt)
	if !ok {
		return nil, false
	}
	var terms []T
	var sorts []Sort
	for _, a := range args {
		switch a.(type) {
		case Sc, StrV:
		default:
			return nil, false
		}
		for _, t := range flat(a) {
			terms = append(terms, t)
			sorts = append(sorts, t.Sort)
		}
	}
	name := fmt.Sprintf("pf_%s_%d", sanitize(fx.eng.funcKey(fn)), i)
	fx.declareFun(name, sorts, sort)
	fx.pureAxioms(fn, args)
	t := app(name, sort, terms...)
	if rf, ok := fx.rangeFact(t, rt); ok {
		fx.assumeRaw(rf)
	}
	return Sc{t, rt}, true
}

// pureAxioms states the (trusted) postconditions of a pure function without preconditions for
// all arguments, once per function: forall args :: ensures(args, pf_0(args), pf_1(args)).
func (fx *FuncVC) pureAxioms(fn *ssa.Function, args []Val) {
	key := fx.eng.funcKey(fn)
	mark := "pfax_" + sanitize(key)
	if _, done := fx.declared[mark]; done {
		return
	}
	fx.declared[mark] = SBool
	spec, spkg := fx.eng.specFor(fn)
	if spec == nil || !spec.Pure || len(spec.Requires) > 0 {
		return
	}
	var bvars []T
	var shapes []Val
	for i, a := range args {
		shapes = append(shapes, fx.boundLike(a, fmt.Sprintf("%s_%d", key, i), &bvars))
	}
	var binders, pats []string
	var sorts []Sort
	for _, b := range bvars {
		binders = append(binders, fmt.Sprintf("(%s %s)", b.S, b.Sort))
		sorts = append(sorts, b.Sort)
	}
	resT := fn.Signature.Results()
	var results []Val
	for i := 0; i < resT.Len(); i++ {
		rt := resT.At(i).Type()
		sort, ok := fx.scalarSort(rt)
		if b, isBasic := under(rt).(*types.Basic); !ok || !isBasic || b.Info()&(types.IsBoolean|types.IsInteger) == 0 {
			return
		}
		name := fmt.Sprintf("pf_%s_%d", sanitize(key), i)
		fx.declareFun(name, sorts, sort)
		t := app(name, sort, bvars...)
		pats = append(pats, t.S)
		results = append(results, Sc{t, rt})
	}
	st := &State{pc: True, cells: map[*Cell]Val{}, heaps: map[string]T{}, alloc: fx.alloc0, sym: &symHeaps{sorts: map[string]Sort{}}}
	env := &Env{fx: fx, st: st, vars: map[string]Val{}, pkg: spkg}
	fx.bindParams(env, fn, shapes)
	post := &Env{fx: fx, st: st, vars: map[string]Val{}, pkg: spkg, old: env}
	fx.bindParams(post, fn, shapes)
	fx.bindResults(post, fn, results)
	var facts []T
	for _, en := range spec.Ensures {
		facts = append(facts, fx.evalBool(post, en.E, en))
	}
	if len(st.sym.names) > 0 {
		return // reads mutable memory: not a function of its arguments alone
	}
	for _, p := range pats {
		fx.assumeDef(T{fmt.Sprintf("(forall (%s) (! %s :pattern (%s)))", strings.Join(binders, " "), And(facts...).S, p), SBool})
	}
}
