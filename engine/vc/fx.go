package vc

import (
	"fmt"
	"go/token"
	"go/types"
	"sort"
	"strings"

	"golang.org/x/tools/go/ssa"
)

// State is the symbolic machine state at a program point.
type State struct {
	pc     T
	cells  map[*Cell]Val
	heaps  map[string]T
	alloc  T
	defers []*deferRec
	dead   bool
	sym    *symHeaps // non-nil: heaps are bound variables (definition of a recursive spec function)
	split  []T       // path conditions of the states joined last (option split-joins: obligations are proved per case)
}

type deferRec struct {
	instr *ssa.Defer
	fn    Val
	args  []Val
}

func (s *State) clone() *State {
	n := &State{pc: s.pc, alloc: s.alloc, dead: s.dead, split: s.split}
	n.cells = make(map[*Cell]Val, len(s.cells))
	for k, v := range s.cells {
		n.cells[k] = v
	}
	n.heaps = make(map[string]T, len(s.heaps))
	for k, v := range s.heaps {
		n.heaps[k] = v
	}
	n.defers = append([]*deferRec(nil), s.defers...)
	return n
}

// Obligation is one verification condition.
type Obligation struct {
	Name    string
	Kind    string
	Func    string
	Pos     string
	Goal    T
	PC      T
	NAssume int    // number of assumptions in scope
	NDecl   int    // number of declarations in scope
	Expect  string // "unsat" (default) or "sat" for reach/pre-sat covers
	Text    string // human-readable goal
	fx      *FuncVC
	Decided *ObResult // already decided outside the solvers (facts evaluated on initialised tables)
}

// havocSet is the set of locations a loop may modify, discovered by iteration.
type havocSet struct {
	cells map[*Cell]bool
	heaps map[string]bool
	alloc bool
}

// FuncVC generates the verification conditions of one function.
type FuncVC struct {
	eng  *Engine
	fn   *ssa.Function
	spec *FuncSpec
	pkg  *PkgInfo
	bv   bool

	decls    []string
	declared map[string]Sort
	typeIDs  map[string]int // dynamic type identities (dyntype.go)
	wfSeen   map[string]bool
	assumps  []string
	obls     []*Obligation
	counter  map[string]int
	st       *State

	entry      *State // state at function entry (for old())
	alloc0     T
	paramEntry map[string]Val
	recvName   string
	results    []Val // at the current return
	resultVars []*types.Var

	havoc   map[*ssa.BasicBlock]*havocSet
	dirty   bool
	active  []*havocSet // loops enclosing the instruction being executed
	kindCnt map[string]int
	notes   []string // assumptions worth reporting
	trusted map[string]bool
	depth   int
	strLits map[string]StrV
	globals map[*ssa.Global]PtrV

	curFrame *frame

	cellByInstr map[ssa.Instruction]*Cell
	regions     []region
	lastSearch  *searchFact
	mute        int
	recDefs     map[string]*recDef
	defAx       map[int]bool // indices in assumps of quantified definitional axioms (recursive spec functions, pure functions)
}

func (fx *FuncVC) fresh(hint string, s Sort) T {
	hint = sanitize(hint)
	if hint == "" {
		hint = "v"
	}
	fx.counter[hint]++
	name := fmt.Sprintf("%s!%d", hint, fx.counter[hint])
	fx.decls = append(fx.decls, fmt.Sprintf("(declare-const %s %s)", name, s))
	fx.declared[name] = s
	return T{name, s}
}

func (fx *FuncVC) declareFun(name string, args []Sort, ret Sort) {
	if _, ok := fx.declared[name]; ok {
		return
	}
	var as []string
	for _, a := range args {
		as = append(as, string(a))
	}
	fx.decls = append(fx.decls, fmt.Sprintf("(declare-fun %s (%s) %s)", name, strings.Join(as, " "), ret))
	fx.declared[name] = ret
}

// assume adds a fact guarded by the current path condition.
func (fx *FuncVC) assume(f T) {
	if f.S == "true" {
		return
	}
	g := f
	if fx.st != nil {
		g = Implies(fx.st.pc, f)
	}
	fx.assumps = append(fx.assumps, "(assert "+g.S+")")
}

// assumeRaw adds an unguarded fact (definitions of fresh names).
func (fx *FuncVC) assumeRaw(f T) {
	if f.S == "true" {
		return
	}
	fx.assumps = append(fx.assumps, "(assert "+f.S+")")
}

// assumeDef adds a quantified definitional axiom.
func (fx *FuncVC) assumeDef(f T) {
	if fx.defAx == nil {
		fx.defAx = map[int]bool{}
	}
	fx.defAx[len(fx.assumps)] = true
	fx.assumps = append(fx.assumps, "(assert "+f.S+")")
}

// define names a term by a fresh constant when it is large.
func (fx *FuncVC) define(hint string, t T) T {
	if len(t.S) < 48 && !strings.Contains(t.S, "(ite ") {
		return t
	}
	c := fx.fresh(hint, t.Sort)
	fx.assumeRaw(Eq(c, t))
	return c
}

func (fx *FuncVC) defineVal(hint string, v Val) Val {
	switch v := v.(type) {
	case Sc:
		return Sc{fx.define(hint, v.T), v.Typ}
	case SliceV:
		return SliceV{fx.define(hint+"_b", v.Base), fx.define(hint+"_o", v.Off), fx.define(hint+"_l", v.Len), fx.define(hint+"_c", v.Cap), v.Typ}
	case StrV:
		return StrV{fx.define(hint+"_b", v.Base), fx.define(hint+"_o", v.Off), fx.define(hint+"_l", v.Len)}
	case StructV:
		out := StructV{Typ: v.Typ}
		for i, f := range v.F {
			out.F = append(out.F, fx.defineVal(fmt.Sprintf("%s_%d", hint, i), f))
		}
		return out
	case TupleV:
		out := TupleV{}
		for i, f := range v.V {
			out.V = append(out.V, fx.defineVal(fmt.Sprintf("%s_%d", hint, i), f))
		}
		return out
	case PtrV:
		if v.Kind == pkHeap {
			v.Ref = fx.define(hint+"_r", v.Ref)
		}
		if v.Kind == pkElem {
			v.Base = fx.define(hint+"_b", v.Base)
			v.Idx = fx.define(hint+"_i", v.Idx)
		}
		return v
	}
	return v
}

func (fx *FuncVC) posOf(p token.Pos) string {
	if !p.IsValid() {
		return ""
	}
	pp := fx.eng.fset.Position(p)
	f := pp.Filename
	if i := strings.LastIndex(f, "/"); i >= 0 {
		f = f[i+1:]
	}
	return fmt.Sprintf("%s:%d", f, pp.Line)
}

// oblige records a proof obligation goal under the current path condition.
func (fx *FuncVC) oblige(kind string, goal T, pos token.Pos, text string) {
	if fx.st.dead || fx.mute > 0 {
		return
	}
	if goal.S == "true" {
		// trivially true goals are still counted (cheap) to keep ordinals stable
	}
	fx.kindCnt[kind]++
	name := fmt.Sprintf("%s/%s#%d", fx.funcName(), kind, fx.kindCnt[kind])
	if ps := fx.posOf(pos); ps != "" {
		name += "@" + ps
	}
	if sj := fx.splitJoinsFor(kind); sj && len(fx.st.split) > 1 && goal.S != "true" {
		// one obligation per joined path: the merged (ite) state collapses to one branch in each
		for i, d := range fx.st.split {
			n := name
			if i > 0 {
				fx.kindCnt[kind]++
				n = fmt.Sprintf("%s/%s#%d", fx.funcName(), kind, fx.kindCnt[kind])
				if ps := fx.posOf(pos); ps != "" {
					n += "@" + ps
				}
			}
			fx.obls = append(fx.obls, &Obligation{
				Name: n, Kind: kind, Func: fx.funcName(), Pos: fx.posOf(pos), Goal: goal, PC: And(fx.st.pc, d),
				NAssume: len(fx.assumps), NDecl: len(fx.decls), Text: fmt.Sprintf("%s [joined path %d of %d]", text, i+1, len(fx.st.split)), fx: fx,
			})
		}
		return
	}
	fx.obls = append(fx.obls, &Obligation{
		Name: name, Kind: kind, Func: fx.funcName(), Pos: fx.posOf(pos), Goal: goal, PC: fx.st.pc,
		NAssume: len(fx.assumps), NDecl: len(fx.decls), Text: text, fx: fx,
	})
}

// splitJoinsFor: option split-joins (every obligation) or split-joins=<kind>[,<kind>] (only those kinds)
func (fx *FuncVC) splitJoinsFor(kind string) bool {
	if fx.spec == nil {
		return false
	}
	v := fx.spec.Options["split-joins"]
	if v == "" {
		return false
	}
	if v == "true" {
		return true
	}
	for _, k := range strings.Split(v, ",") {
		if strings.TrimSpace(k) == kind {
			return true
		}
	}
	return false
}

func (fx *FuncVC) cover(kind string, pos token.Pos, text string) {
	if fx.st.dead {
		return
	}
	fx.kindCnt[kind]++
	name := fmt.Sprintf("%s/%s#%d", fx.funcName(), kind, fx.kindCnt[kind])
	if ps := fx.posOf(pos); ps != "" {
		name += "@" + ps
	}
	fx.obls = append(fx.obls, &Obligation{
		Name: name, Kind: kind, Func: fx.funcName(), Pos: fx.posOf(pos), Goal: False, PC: fx.st.pc,
		NAssume: len(fx.assumps), NDecl: len(fx.decls), Text: text, Expect: "sat", fx: fx,
	})
}

func (fx *FuncVC) funcName() string {
	return fx.pkg.Short + "." + fx.spec.Name
}

// ---- heaps ----

func (fx *FuncVC) heapSortObj(leaf Sort) Sort  { return SArr(SInt, leaf) }
func (fx *FuncVC) heapSortElem(leaf Sort) Sort { return SArr(SInt, SArr(fx.idxSort(), leaf)) }

// heap returns the current term of the named heap, declaring its entry version on first use.
func (fx *FuncVC) heap(st *State, name string, sort Sort) T {
	if st.sym != nil {
		return st.sym.get(name, sort)
	}
	if h, ok := st.heaps[name]; ok {
		return h
	}
	h0 := T{name + "!0", sort}
	if _, ok := fx.declared[h0.S]; !ok {
		fx.decls = append(fx.decls, fmt.Sprintf("(declare-const %s %s)", h0.S, sort))
		fx.declared[h0.S] = sort
	}
	// The entry heap is shared by every state that has not written it yet.
	if fx.entry != nil {
		if _, ok := fx.entry.heaps[name]; !ok {
			fx.entry.heaps[name] = h0
		}
	}
	st.heaps[name] = h0
	return h0
}

func (fx *FuncVC) setHeap(name string, t T) {
	fx.st.heaps[name] = t
	for _, hs := range fx.active {
		if !hs.heaps[name] {
			hs.heaps[name] = true
			fx.dirty = true
		}
	}
}

func objHeapName(root types.Type, leafPath string) string {
	return "H_" + typeKey(root) + sanitize(leafPath)
}
func elemHeapName(elem types.Type, leafPath string) string {
	return "HE_" + typeKey(elem) + sanitize(leafPath)
}

func (fx *FuncVC) strHeap() T {
	s := SArr(SInt, SArr(fx.idxSort(), fx.byteSort()))
	if _, ok := fx.declared["STR"]; !ok {
		fx.decls = append(fx.decls, fmt.Sprintf("(declare-const STR %s)", s))
		fx.declared["STR"] = s
	}
	return T{"STR", s}
}

func (fx *FuncVC) byteSort() Sort {
	if fx.bv {
		return SBV(8)
	}
	return SInt
}

// loadPtr reads the value a pointer designates in state st.
func (fx *FuncVC) loadPtr(st *State, p PtrV) Val {
	switch p.Kind {
	case pkCell:
		v, ok := st.cells[p.Cell]
		if !ok {
			panic(unsupported("read of cell %s not live on this path", p.Cell.Name))
		}
		return fx.navigate(v, p.Path)
	case pkHeap, pkElem:
		target := typeAt(p.Root, p.Path)
		prefix, idxs := leafPathPrefix(p.Root, p.Path)
		var ls []T
		leaves := fx.leavesOf(target)
		if len(idxs) > 0 {
			// path ends inside an array leaf: heap leaf is the array at prefix.
			arrT := typeAt(p.Root, p.Path[:len(p.Path)-len(idxs)])
			leaves = fx.leavesOf(arrT)
		}
		for _, l := range leaves {
			var cell T
			if p.Kind == pkHeap {
				h := fx.heap(st, objHeapName(p.Root, prefix+l.Path), fx.heapSortObj(l.Sort))
				fx.closedHeapAxiom(objHeapName(p.Root, prefix+l.Path), l.Sort, l, false)
				cell = Select(h, p.Ref)
			} else {
				h := fx.heap(st, elemHeapName(p.Root, prefix+l.Path), fx.heapSortElem(l.Sort))
				fx.closedHeapAxiom(elemHeapName(p.Root, prefix+l.Path), l.Sort, l, true)
				cell = Select(Select(h, p.Base), p.Idx)
			}
			for _, ix := range idxs {
				cell = Select(cell, ix)
			}
			ls = append(ls, cell)
		}
		v := fx.build(target, ls)
		if st.sym == nil && fx.st != nil && fx.st.sym == nil && fx.spec != nil && fx.spec.Options["wf-loads"] != "" {
			// option wf-loads: the type invariant of what was loaded (0 <= len <= cap, ...) is assumed also
			// for loads made while evaluating a contract, e.g. of a slice field that a callee has just
			// re-assigned (opt-in: the extra facts slow unrelated proofs down)
			key := ""
			for _, t := range ls {
				key += t.S + "|"
			}
			if fx.wfSeen == nil {
				fx.wfSeen = map[string]bool{}
			}
			// (a load under a quantifier mentions its bound variable, written name?n: nothing can be assumed about it here)
			if _, isSlice := v.(SliceV); (isSlice || isStrOrStruct(v)) && !fx.wfSeen[key] && !strings.Contains(key, "?") {
				fx.wfSeen[key] = true
				fx.assumeWF(v)
			}
		}
		return v
	}
	panic(unsupported("nil pointer dereference in load"))
}

// storePtr writes v through p in the current state.
func (fx *FuncVC) storePtr(p PtrV, v Val) {
	st := fx.st
	switch p.Kind {
	case pkCell:
		old, ok := st.cells[p.Cell]
		if !ok {
			panic(unsupported("write to cell %s not live on this path", p.Cell.Name))
		}
		st.cells[p.Cell] = fx.update(old, p.Path, v)
		for _, hs := range fx.active {
			if !hs.cells[p.Cell] {
				hs.cells[p.Cell] = true
				fx.dirty = true
			}
		}
		return
	case pkHeap, pkElem:
		target := typeAt(p.Root, p.Path)
		prefix, idxs := leafPathPrefix(p.Root, p.Path)
		leaves := fx.leavesOf(target)
		vals := flat(v)
		if len(idxs) > 0 {
			arrT := typeAt(p.Root, p.Path[:len(p.Path)-len(idxs)])
			leaves = fx.leavesOf(arrT)
		}
		for i, l := range leaves {
			var name string
			var h T
			if p.Kind == pkHeap {
				name = objHeapName(p.Root, prefix+l.Path)
				h = fx.heap(st, name, fx.heapSortObj(l.Sort))
			} else {
				name = elemHeapName(p.Root, prefix+l.Path)
				h = fx.heap(st, name, fx.heapSortElem(l.Sort))
			}
			nv := vals[i]
			if len(idxs) > 0 {
				var cur T
				if p.Kind == pkHeap {
					cur = Select(h, p.Ref)
				} else {
					cur = Select(Select(h, p.Base), p.Idx)
				}
				// single-level arrays only
				nv = Store(cur, idxs[0], vals[i])
			}
			var nh T
			if p.Kind == pkHeap {
				nh = Store(h, p.Ref, nv)
			} else {
				nh = Store(h, p.Base, Store(Select(h, p.Base), p.Idx, nv))
			}
			c := fx.fresh(name, nh.Sort)
			fx.assumeRaw(Eq(c, nh))
			if p.Kind == pkElem {
				fx.storeFrameLemma(c, h, p.Base, p.Base, p.Idx)
			}
			fx.setHeap(name, c)
		}
		return
	}
	panic(unsupported("store through nil pointer"))
}

// ---- allocation ----

func (fx *FuncVC) newRef(hint string) T {
	r := fx.define(hint, fx.st.alloc)
	na := fx.fresh("alloc", SInt)
	fx.assumeRaw(Eq(na, Add(r, IntC(1))))
	fx.st.alloc = na
	for _, hs := range fx.active {
		if !hs.alloc {
			hs.alloc = true
			fx.dirty = true
		}
	}
	return r
}

// allocArray allocates a fresh backing array of elem type with every element = zero value.
func (fx *FuncVC) allocArray(elem types.Type, hint string) T {
	r := fx.newRef(hint)
	for _, l := range fx.leavesOf(elem) {
		name := elemHeapName(elem, l.Path)
		h := fx.heap(fx.st, name, fx.heapSortElem(l.Sort))
		nh := Store(h, r, ConstArr(SArr(fx.idxSort(), l.Sort), fx.zeroOfSort(l.Sort)))
		c := fx.fresh(name, nh.Sort)
		fx.assumeRaw(Eq(c, nh))
		fx.setHeap(name, c)
	}
	return r
}

// allocObj allocates a fresh heap object of type t initialised to init (or zero).
func (fx *FuncVC) allocObj(t types.Type, init Val, hint string) PtrV {
	r := fx.newRef(hint)
	p := PtrV{Kind: pkHeap, Ref: r, Root: t, Typ: types.NewPointer(t)}
	if init == nil {
		init = fx.zeroVal(t)
	}
	fx.storePtr(p, init)
	return p
}

// ---- strings ----

func (fx *FuncVC) strConst(s string) StrV {
	if v, ok := fx.strLits[s]; ok {
		return v
	}
	base := fx.fresh("strlit", SInt)
	fx.assumeRaw(Lt(base, IntC(0), true)) // literals live at negative refs, disjoint from the heap
	for _, o := range fx.strLits {
		fx.assumeRaw(Not(Eq(base, o.Base)))
	}
	h := fx.strHeap()
	row := Select(h, base)
	for i := 0; i < len(s); i++ {
		var b T
		if fx.bv {
			b = BVC(bigInt(int64(s[i])), 8)
		} else {
			b = IntC(int64(s[i]))
		}
		fx.assumeRaw(Eq(Select(row, fx.idx(int64(i))), b))
	}
	v := StrV{base, fx.idx(0), fx.idx(int64(len(s)))}
	fx.strLits[s] = v
	return v
}

// strEq is extensional string equality.
func (fx *FuncVC) strEq(a, b StrV) T {
	if a.Base.S == b.Base.S && a.Off.S == b.Off.S && a.Len.S == b.Len.S {
		return True
	}
	if fx.bv {
		panic(unsupported("string comparison in mode bv"))
	}
	// If one side is a literal of known length, compare bytewise.
	if n, ok := isIntLit(b.Len); ok && n <= 64 {
		return fx.strEqN(a, b, n)
	}
	if n, ok := isIntLit(a.Len); ok && n <= 64 {
		return fx.strEqN(b, a, n)
	}
	h := fx.strHeap()
	k := fx.freshBound("k")
	body := Implies(And(Le(IntC(0), k, true), Lt(k, a.Len, true)),
		Eq(Select(Select(h, a.Base), Add(a.Off, k)), Select(Select(h, b.Base), Add(b.Off, k))))
	q := T{fmt.Sprintf("(forall ((%s Int)) %s)", k.S, body.S), SBool}
	return And(Eq(a.Len, b.Len), q)
}

func (fx *FuncVC) strEqN(a, lit StrV, n int64) T {
	h := fx.strHeap()
	cs := []T{Eq(a.Len, lit.Len)}
	for i := int64(0); i < n; i++ {
		cs = append(cs, Eq(Select(Select(h, a.Base), Add(a.Off, IntC(i))), Select(Select(h, lit.Base), Add(lit.Off, IntC(i)))))
	}
	return And(cs...)
}

func (fx *FuncVC) freshBound(hint string) T {
	fx.counter["$b"+hint]++
	s := fx.idxSort()
	return T{fmt.Sprintf("%s?%d", hint, fx.counter["$b"+hint]), s}
}

func sortedKeys(m map[string]bool) []string {
	var ks []string
	for k := range m {
		ks = append(ks, k)
	}
	sort.Strings(ks)
	return ks
}

// storeFrameLemma states, with triggers on both heap versions (encoding rule R2), that a store of
// one element leaves every other element alone. nh == store(h, dstBase, store(h[srcBase], idx, _)).
func (fx *FuncVC) storeFrameLemma(nh, h, dstBase, srcBase, idx T) {
	is := fx.idxSort()
	if dstBase.S == srcBase.S {
		q := fmt.Sprintf("(forall ((fb? Int) (fj? %s)) (! (=> (not (and (= fb? %s) (= fj? %s))) (= (select (select %s fb?) fj?) (select (select %s fb?) fj?))) :pattern ((select (select %s fb?) fj?)) :pattern ((select (select %s fb?) fj?))))",
			is, dstBase.S, idx.S, nh.S, h.S, nh.S, h.S)
		fx.assumeRaw(T{q, SBool})
		return
	}
	q1 := fmt.Sprintf("(forall ((fb? Int) (fj? %s)) (! (=> (not (= fb? %s)) (= (select (select %s fb?) fj?) (select (select %s fb?) fj?))) :pattern ((select (select %s fb?) fj?)) :pattern ((select (select %s fb?) fj?))))",
		is, dstBase.S, nh.S, h.S, nh.S, h.S)
	q2 := fmt.Sprintf("(forall ((fj? %s)) (! (=> (not (= fj? %s)) (= (select (select %s %s) fj?) (select (select %s %s) fj?))) :pattern ((select (select %s %s) fj?)) :pattern ((select (select %s %s) fj?))))",
		is, idx.S, nh.S, dstBase.S, h.S, srcBase.S, nh.S, dstBase.S, h.S, srcBase.S)
	fx.assumeRaw(T{q1, SBool})
	fx.assumeRaw(T{q2, SBool})
}

func isStrOrStruct(v Val) bool {
	switch v.(type) {
	case StrV, StructV:
		return true
	}
	return false
}
