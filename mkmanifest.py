#!/usr/bin/env python3
"""Regenerates MANIFEST.json from registry.json + manifest_text.json (levels, notes, not_applicable)."""
import json, os
V = os.path.dirname(os.path.abspath(__file__))
reg = json.load(open(os.path.join(V, "registry.json")))
txt = json.load(open(os.path.join(V, "manifest_text.json")))
props = [json.loads(l) for l in open(os.path.join(V, "properties.jsonl"))]
import subprocess
try:
    hc = subprocess.run(["git", "-C", "/repo", "log", "--format=%h", "--reverse", "--", "*zz_verif_contracts.go"], capture_output=True, text=True).stdout.split()
    if hc:
        txt["hook_commits"] = hc
        json.dump(txt, open(os.path.join(V, "manifest_text.json"), "w"), indent=1)
except Exception:
    pass
checks = []
claimed = set()
for p in props:
    pid = p["id"]
    if pid in reg["properties"] and pid in txt["checks"]:
        t = txt["checks"][pid]
        claimed.add(pid)
        checks.append({
            "property_id": pid,
            "quick_cmd": "./check %s --tier quick" % pid,
            "thorough_cmd": "./check %s --tier thorough" % pid,
            "evidence_file": "evidence/%s.json" % pid,
            "replay_cmd_template": "./check %s --replay {path}" % pid,
            "engine": "govc",
            "level_claimed": {"category": reg["properties"][pid]["level"], "text": t["level_text"], "design_ref": t.get("design_ref", "DESIGN.md section 5, " + pid)},
            "level_note": t["level_note"],
            "technique": t["technique"],
        })
na = []
for p in props:
    if p["id"] not in claimed:
        na.append({"property_id": p["id"], "reason": txt["not_applicable"].get(p["id"], "no check built yet in this round; see DESIGN.md")})
m = {
    "version": 1,
    "setup_cmd": "cd engine && PATH=/opt/veriftools/go1.26.8/bin:$PATH GOFLAGS=-mod=mod GOPROXY=off GOSUMDB=off GOTOOLCHAIN=local go build -o ../bin/govc ./cmd/govc",
    "hooks": {
        "guard": "verif",
        "enable": "go build tag 'verif' (-tags=verif): only adds comment-only contract files zz_verif_contracts.go to packages; govc loads packages with that tag",
        "baseline_off_cmd": "cd /repo && PATH=/opt/veriftools/go1.26.8/bin:$PATH GOFLAGS=-mod=mod GOPROXY=off GOSUMDB=off GOTOOLCHAIN=local go test -vet=off -count=1 ./...",
        "source_commits": txt["hook_commits"],
        "add_only": True,
    },
    "engines": [{"name": "govc", "path": "engine/", "serves_properties": sorted(claimed),
                 "kind_free_text": "contract-based deductive verifier for Go written for this task: weakest-precondition style VC generation over go/ssa (NaiveForm) with contracts in //@ comment files, obligations discharged by z3 5.1.0 / z3 4.8.12 / cvc5 1.0.3; bounded executable contracts (go test -overlay) as labelled stand-ins"}],
    "checks": checks,
    "not_applicable": na,
    "notes": txt.get("notes", ""),
}
json.dump(m, open(os.path.join(V, "MANIFEST.json"), "w"), indent=1)
print("claimed", sorted(claimed), "n/a", [x["property_id"] for x in na])
