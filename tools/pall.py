#!/usr/bin/env python3
"""Runs govc on every function registered under 'proof' in registry.json (deductive part only) and prints what is not discharged."""
import json, subprocess, sys, os
V = os.path.dirname(os.path.dirname(os.path.abspath(__file__)))
reg = json.load(open(os.path.join(V, "registry.json")))
pkgs, funcs = [], []
for pid, p in reg["properties"].items():
    pr = p.get("proof")
    if not pr:
        continue
    for x in pr["pkgs"]:
        if x not in pkgs:
            pkgs.append(x)
    for f in pr["funcs"]:
        if f not in funcs:
            funcs.append(f)
repo = os.environ.get("VERIF_REPO", "/repo")
cmd = [os.environ.get("GOVC", os.path.join(V, "bin", "govc")), "-repo", repo, "-verif", V, "-pkgs", ",".join(pkgs), "-funcs", ",".join(funcs), "-timeout", sys.argv[1] if len(sys.argv) > 1 else "20", "-out", "/tmp/scratch/pall.json"]
os.makedirs("/tmp/scratch", exist_ok=True)
subprocess.run(cmd)
r = json.load(open("/tmp/scratch/pall.json"))
tot = ok = 0
for fn in r["functions"]:
    if fn["status"] != "ok":
        print("!!", fn["func"], fn["status"], fn.get("error", "")[:200])
    for ob in fn.get("obligations") or []:
        if ob["kind"] in ("reach", "pre-sat"):
            if ob["status"] == "cover-failed":
                print("!! cover failed", ob["name"])
            continue
        tot += 1
        if ob["status"] == "discharged":
            ok += 1
        else:
            print("  ", ob["status"], ob["name"], ob["text"][:120], flush=True)
print("functions", len(r["functions"]), "obligations", tot, "discharged", ok, "errors", r.get("errors"))
