#!/usr/bin/env python3
"""Runs the registered quick checks against every seeded change under /verif/seeded.

For each seeded/<ID>-m<k>/patch.diff: git -C /repo apply, ./check <ID> (plus any extra property ids
given in meta.json "also_check"), git -C /repo checkout -- . ; the outcome is recorded in
meta.json under "detected_by" and summarised in seeded/RESULTS.json.
Usage: run_seeded.py [name ...]
"""
import json, os, re, subprocess, sys, time

VERIF = "/verif"
REPO = "/repo"


def main():
    names = sys.argv[1:] or sorted(os.listdir(os.path.join(VERIF, "seeded")))
    if subprocess.run(["git", "-C", REPO, "diff", "--quiet"]).returncode != 0:
        print("/repo has uncommitted changes to tracked files; refusing to run")
        sys.exit(2)
    results = {}
    rp = os.path.join(VERIF, "seeded", "RESULTS.json")
    if os.path.exists(rp):
        results = json.load(open(rp))
    for name in names:
        d = os.path.join(VERIF, "seeded", name)
        if not os.path.isdir(d):
            continue
        meta = json.load(open(os.path.join(d, "meta.json")))
        pids = [meta["property"]] + list(meta.get("also_check", []))
        a = subprocess.run(["git", "-C", REPO, "apply", os.path.join(d, "patch.diff")], capture_output=True, text=True)
        if a.returncode != 0:
            results[name] = {"error": "patch does not apply: " + a.stderr[-200:]}
            print(name, "DOES NOT APPLY")
            continue
        det = {}
        try:
            for pid in pids:
                t0 = time.time()
                p = subprocess.run(["./check", pid], cwd=VERIF, capture_output=True, text=True)
                viol = [l for l in p.stdout.splitlines() if l.startswith("VIOLATION")]
                whats = [l.strip()[:300] for l in p.stdout.splitlines() if l.startswith("  ") and not l.startswith("   ")][:3]
                det[pid] = {"exit": p.returncode, "violations": len(viol), "first": whats, "seconds": round(time.time() - t0, 1)}
        finally:
            subprocess.run(["git", "-C", REPO, "checkout", "--", "."])
        caught = any(v["exit"] == 1 and v["violations"] > 0 for v in det.values())
        meta["detected_by"] = {"caught": caught, "checks": det, "repo_commit": subprocess.check_output(["git", "-C", REPO, "rev-parse", "--short", "HEAD"]).decode().strip()}
        json.dump(meta, open(os.path.join(d, "meta.json"), "w"), indent=1)
        results[name] = {"caught": caught, "checks": {k: (v["exit"], v["violations"]) for k, v in det.items()}}
        print(name, "CAUGHT" if caught else "missed", results[name]["checks"], flush=True)
        json.dump(results, open(rp, "w"), indent=1)
    # evidence files were rewritten by runs on mutated trees: the caller must rerun the checks on the clean tree


if __name__ == "__main__":
    main()
