#!/usr/bin/env python3
"""Runs the registered quick checks against every seeded change under /verif/seeded.

/repo is never written: for each seeded/<ID>-m<k>/patch.diff a scratch copy of /repo's working tree
(/var/tmp/verif_seeded/repo, refreshed with rsync before every patch and removed at the end) gets the
patch, and ./check <ID> (plus any extra property ids given in meta.json "also_check") runs with
VERIF_REPO pointing at the copy and VERIF_OUT at /var/tmp/verif_seeded/out, so the registered
evidence/ and replays/ are not touched either. (An earlier version patched /repo in place and
reverted afterwards; a run that was cut off left a seeded change in /repo, which the end-of-round
snapshot then committed - see DESIGN.md, "Incident".) The outcome is recorded in meta.json under
"detected_by" and summarised in seeded/RESULTS.json.
Usage: run_seeded.py [name ...]
"""
import json, os, shutil, subprocess, sys, time

VERIF = "/verif"
REPO = "/repo"
SCRATCH = "/var/tmp/verif_seeded"
COPY = os.path.join(SCRATCH, "repo")   # the last path element stays "repo": harness stack filters look for "/repo/"
OUT = os.path.join(SCRATCH, "out")


def refresh():
    os.makedirs(COPY, exist_ok=True)
    subprocess.run(["rsync", "-a", "--delete", "--exclude", ".git", REPO + "/", COPY + "/"], check=True)


def main():
    names = sys.argv[1:] or sorted(os.listdir(os.path.join(VERIF, "seeded")))
    if subprocess.run(["git", "-C", REPO, "diff", "--quiet"]).returncode != 0:
        print("/repo has uncommitted changes to tracked files; refusing to run")
        sys.exit(2)
    head = subprocess.check_output(["git", "-C", REPO, "rev-parse", "--short", "HEAD"]).decode().strip()
    results = {}
    rp = os.path.join(VERIF, "seeded", "RESULTS.json")
    if os.path.exists(rp):
        results = json.load(open(rp))
    env = dict(os.environ, VERIF_REPO=COPY, VERIF_OUT=OUT)
    try:
        for name in names:
            d = os.path.join(VERIF, "seeded", name)
            if not os.path.isdir(d):
                continue
            meta = json.load(open(os.path.join(d, "meta.json")))
            pids = [meta["property"]] + list(meta.get("also_check", []))
            refresh()
            a = subprocess.run(["git", "apply", os.path.join(d, "patch.diff")], cwd=COPY, capture_output=True, text=True)
            if a.returncode != 0:
                results[name] = {"error": "patch does not apply: " + a.stderr[-200:]}
                print(name, "DOES NOT APPLY", flush=True)
                json.dump(results, open(rp, "w"), indent=1)
                continue
            det = {}
            for pid in pids:
                t0 = time.time()
                p = subprocess.run(["./check", pid], cwd=VERIF, env=env, capture_output=True, text=True)
                viol = [l for l in p.stdout.splitlines() if l.startswith("VIOLATION")]
                whats = [l.strip()[:300] for l in p.stdout.splitlines() if l.startswith("  ") and not l.startswith("   ")][:3]
                det[pid] = {"exit": p.returncode, "violations": len(viol), "first": whats, "seconds": round(time.time() - t0, 1)}
            caught = any(v["exit"] == 1 and v["violations"] > 0 for v in det.values())
            meta["detected_by"] = {"caught": caught, "checks": det, "repo_commit": head}
            json.dump(meta, open(os.path.join(d, "meta.json"), "w"), indent=1)
            results[name] = {"caught": caught, "checks": {k: (v["exit"], v["violations"]) for k, v in det.items()}}
            print(name, "CAUGHT" if caught else "missed", results[name]["checks"], flush=True)
            json.dump(results, open(rp, "w"), indent=1)
    finally:
        shutil.rmtree(SCRATCH, ignore_errors=True)


if __name__ == "__main__":
    main()
