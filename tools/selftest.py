#!/usr/bin/env python3
"""Must-fail corpus for the deductive contracts: every probe in selftest/probes.tsv is a small edit
(sed) of a function under contract that breaks what its contract states. Each is applied to a scratch
copy of /repo (never /repo), govc runs on the named function, and the probe passes when the contract
still applies (status ok) and at least one obligation is NOT discharged. A probe whose obligations
all discharge means a vacuous or too weak contract (or an engine regression) and fails the selftest.
Usage: selftest.py [substring ...]   (run after every engine change; ~10-40 s per probe, 4 at a time)"""
import concurrent.futures, json, os, shutil, subprocess, sys, tempfile
V = os.path.dirname(os.path.dirname(os.path.abspath(__file__)))
REPO = os.environ.get("VERIF_REPO", "/repo")
GOVC = os.environ.get("GOVC", os.path.join(V, "bin", "govc"))
def run(p):
    f, sed, pkgs, func, why = p
    d = tempfile.mkdtemp(prefix="verif_selftest.", dir="/var/tmp")
    try:
        subprocess.run(["rsync", "-a", "--exclude", ".git", REPO + "/", d + "/repo/"], check=True)
        before = open(os.path.join(d, "repo", f)).read()
        subprocess.run(["sed", "-i", sed, os.path.join(d, "repo", f)], check=True)
        if open(os.path.join(d, "repo", f)).read() == before:
            return (func, why, "STALE-PROBE", "the sed expression no longer matches " + f)
        out = os.path.join(d, "o.json")
        subprocess.run([GOVC, "-repo", d + "/repo", "-verif", V, "-pkgs", pkgs, "-funcs", func, "-timeout", "8", "-j", "4", "-out", out],
                       stdout=subprocess.DEVNULL, stderr=subprocess.DEVNULL)
        r = json.load(open(out))
        fn = [x for x in r["functions"] if x["func"] == func]
        if not fn or fn[0]["status"] != "ok":
            return (func, why, "NOT-APPLICABLE", (fn[0].get("error", "") if fn else "function not found")[:200])
        bad = [o["name"] for o in fn[0]["obligations"] if o["kind"] not in ("reach", "pre-sat") and o["status"] != "discharged"]
        if bad:
            return (func, why, "ok", bad[0])
        return (func, why, "VACUOUS", "every obligation still discharges")
    finally:
        shutil.rmtree(d, ignore_errors=True)
probes = []
for line in open(os.path.join(V, "selftest", "probes.tsv")):
    if line.startswith("#") or not line.strip():
        continue
    p = line.rstrip("\n").split("\t")
    if len(p) != 5:
        print("MALFORMED probe line (need 5 tab-separated fields):", line[:80])
        sys.exit(2)
    if len(sys.argv) == 1 or any(a in line for a in sys.argv[1:]):
        probes.append(p)
fails = 0
with concurrent.futures.ThreadPoolExecutor(4) as ex:
    for func, why, st, info in ex.map(run, probes):
        print("%-14s %-34s %s  [%s]" % (st, func, why, info[:90]), flush=True)
        if st != "ok":
            fails += 1
print("%d probes, %d not ok" % (len(probes), fails))
sys.exit(1 if fails else 0)
