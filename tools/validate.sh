#!/bin/bash
# Validates MANIFEST.json and evidence/*.json against the schemas (needs the tooling venv: python3-vt).
python3-vt - <<'PY'
import json,jsonschema,glob,sys
s=json.load(open('/root/.vp/EVIDENCE.schema.json'))
bad=0
for f in sorted(glob.glob('/verif/evidence/*.json')):
    try: jsonschema.validate(json.load(open(f)), s)
    except Exception as e:
        bad+=1; print(f, str(e)[:300])
jsonschema.validate(json.load(open('/verif/MANIFEST.json')), json.load(open('/root/.vp/MANIFEST.schema.json')))
print('evidence files:', len(glob.glob('/verif/evidence/*.json')), 'invalid:', bad)
sys.exit(1 if bad else 0)
PY
