#!/usr/bin/env python3
"""usage: regadd.py <PROP> <pkgpattern> <pkgshort.Func> [...]   -- registers functions under contract for a property."""
import json, sys, os
V = os.path.dirname(os.path.dirname(os.path.abspath(__file__)))
p = os.path.join(V, "registry.json")
r = json.load(open(p))
pid, pkg, funcs = sys.argv[1], sys.argv[2], sys.argv[3:]
c = r["properties"][pid]
pr = c.setdefault("proof", {"pkgs": [], "funcs": []})
if pkg not in pr["pkgs"]:
    pr["pkgs"].append(pkg)
for f in funcs:
    if f not in pr["funcs"]:
        pr["funcs"].append(f)
if c["level"] == "exploration":
    c["level"] = "other"
c["explanation"] = ("Mixed: proved deductively for all inputs (function contracts and loop invariants on the real code, obligations discharged by SMT solvers in this run): "
                    + ", ".join(f.split(".", 1)[1] for f in pr["funcs"]) +
                    ". The end-to-end statement of the property is decided by bounded executable contracts (coverage.bounded: bound, cases, functions), which are labelled bounded and never counted as proved.")
json.dump(r, open(p, "w"), indent=1)
print(pid, pr)
