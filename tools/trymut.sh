#!/bin/bash
# usage: trymut.sh <patch> <ID> [<ID>...]  -- applies a seeded change to /repo, runs the checks, reverts.
patch=$1; shift
cd /repo || exit 2
if ! git diff --quiet; then echo "repo dirty"; exit 2; fi
git apply "$patch" || { echo "patch does not apply"; exit 2; }
for id in "$@"; do
  (cd /verif && ./check $id 2>&1 | grep -v "^  " | tail -8; echo "exit=$?")
done
git -C /repo checkout -- .
git -C /repo status --short | head
