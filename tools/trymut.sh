#!/bin/bash
# usage: trymut.sh <patch> <ID> [<ID>...]
# Applies a seeded change to a scratch copy of /repo (never to /repo itself), runs the checks against
# the copy (VERIF_REPO) with their output under the scratch directory (VERIF_OUT), removes the copy.
patch=$(readlink -f "$1"); shift
S=/var/tmp/verif_trymut.$$
mkdir -p $S/repo $S/out
trap 'rm -rf $S' EXIT
rsync -a --exclude .git /repo/ $S/repo/
(cd $S/repo && git apply "$patch") || { echo "patch does not apply"; exit 2; }
for id in "$@"; do
  (cd /verif && VERIF_REPO=$S/repo VERIF_OUT=$S/out ./check $id 2>&1 | grep -v "^  " | tail -8; echo "exit=${PIPESTATUS[0]}")
done
