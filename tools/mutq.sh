#!/bin/bash
# usage: mutq.sh <srcrepo> <file> <sed-expr> <pkgs> <funcs> [timeout]  -- like mutp.sh, but the base tree is <srcrepo> (a scratch copy with contracts under development)
S=/var/tmp/verif_mutq.$$
trap 'rm -rf $S' EXIT
mkdir -p $S
rsync -a --exclude .git $1/ $S/repo/
sed -i "$3" $S/repo/$2
diff <(cat $1/$2) $S/repo/$2 | head -8
/verif/bin/govc -repo $S/repo -verif /verif -pkgs "$4" -funcs "$5" -timeout ${6:-10} -dump 2>&1 | grep -v "discharged\|cover-\|note:" | cut -c1-260 | head -20
