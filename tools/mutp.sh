#!/bin/bash
# usage: mutp.sh <file-in-repo> <sed-expr> <pkgs> <funcs> [timeout]
# Must-fail probe for deductive contracts: applies a sed edit to a scratch copy of /repo (never /repo itself),
# runs govc on the named functions and prints every obligation that is not discharged.
S=/var/tmp/verif_mutp.$$
trap 'rm -rf $S' EXIT
mkdir -p $S
rsync -a --exclude .git /repo/ $S/repo/
sed -i "$2" $S/repo/$1
diff <(cat /repo/$1) $S/repo/$1 | head -8
/verif/bin/govc -repo $S/repo -verif /verif -pkgs "$3" -funcs "$4" -timeout ${5:-10} -dump 2>&1 | grep -v "discharged\|cover-\|note:" | cut -c1-260 | head -20
