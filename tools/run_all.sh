#!/bin/bash
# Runs every registered quick (or $1=thorough) check, N at a time; prints one line per property.
tier=${1:-quick}; par=${2:-4}
cd /verif
ids=$(python3 -c "import json; print(' '.join(c['property_id'] for c in json.load(open('MANIFEST.json'))['checks']))")
mkdir -p /var/tmp/verif_runall
printf '%s\n' $ids | xargs -P $par -I{} sh -c "./check {} --tier $tier > /var/tmp/verif_runall/{}.log 2>&1; echo {} exit=\$? \$(tail -1 /var/tmp/verif_runall/{}.log | cut -c1-120)"
