#!/usr/bin/env python3
"""Confirms seeded changes in a scratch worktree of /repo and packages them under /verif/seeded/<ID>-m<k>/.

For every /tmp/mut/<ID>/out/m<k>.patch (or its adapted version under /tmp/mut/adapted/):
  1. the demonstration passes on the unchanged tree;
  2. with the patch the tree builds and the complete test suite passes;
  3. with the patch the demonstration fails.
Only then is seeded/<ID>-m<k>/{patch.diff, demo, meta.json} written.  Usage: confirm_seeded.py [ID ...]
"""
import glob, json, os, re, shutil, subprocess, sys, time

ENV = dict(os.environ, PATH="/opt/veriftools/go1.26.8/bin:" + os.environ["PATH"], GOFLAGS="-mod=mod", GOPROXY="off",
           GOSUMDB="off", GOTOOLCHAIN="local")
WT = "/tmp/scratch/confirm_wt"
MUT = os.environ.get("MUT_DIR", "/tmp/mut")      # where the sub-agents left their work
TAG = os.environ.get("MUT_TAG", "")              # e.g. "r2": names become <ID>-r2m<k>
OUT = "/verif/seeded"


def sh(cmd, cwd=WT, timeout=1500):
    p = subprocess.run(cmd, shell=True, cwd=cwd, env=ENV, stdout=subprocess.PIPE, stderr=subprocess.STDOUT, timeout=timeout)
    return p.returncode, p.stdout.decode(errors="replace")


def clean():
    sh("git checkout -q -- . && git clean -fdq")


def main():
    ids = sys.argv[1:]
    os.makedirs("/tmp/scratch", exist_ok=True)
    if os.path.isdir(WT):
        subprocess.run(["git", "-C", "/repo", "worktree", "remove", "--force", WT])
    subprocess.run(["git", "-C", "/repo", "worktree", "add", "-q", "--detach", WT, "HEAD"], check=True)
    head = subprocess.check_output(["git", "-C", "/repo", "rev-parse", "--short", "HEAD"]).decode().strip()
    summary = []
    try:
        for patch in sorted(glob.glob(MUT + "/C*/out/m*.patch")):
            pid = patch[len(MUT):].split("/")[1]
            k = os.path.basename(patch)[:-6]
            if ids and pid not in ids and (pid + "-" + TAG + k) not in ids:
                continue
            name = "%s-%s%s" % (pid, TAG, k)
            adapted = MUT + "/adapted/%s_%s.patch" % (pid, k)
            src = adapted if os.path.exists(adapted) else patch
            demos = glob.glob(MUT + "/%s/out/%s_demo*" % (pid, k))
            md = MUT + "/%s/out/%s.md" % (pid, k)
            res = {"id": name, "property": pid, "patch_source": src, "base_commit": head}
            if not demos:
                res["status"] = "no demo"
                summary.append(res)
                continue
            demo = demos[0]
            headtxt = "".join(open(demo, errors="replace").readlines()[:10]) if os.path.isfile(demo) else ""
            mdir = re.search(r"(?<![\w/])((?:[a-z0-9_]+/)+)(?=[\s(]|\s|$)", headtxt) or re.search(r"\./((?:[a-z0-9_]+/)+)\s*$", headtxt, re.M)
            mrun = re.search(r"-run\s+'?([A-Za-z0-9_|$^]+)'?", headtxt)
            if not mdir or not mrun or os.path.isdir(demo):
                res["status"] = "cannot parse demo header"
                summary.append(res)
                continue
            pkgdir, runpat = mdir.group(1).rstrip("/"), mrun.group(1)
            democmd = "go test -vet=off -count=1 -timeout 600s -run '%s' ./%s/" % (runpat, pkgdir)
            dst = os.path.join(WT, pkgdir, "zz_" + os.path.basename(demo))
            clean()
            shutil.copy(demo, dst)
            rc0, out0 = sh(democmd)
            res["demo_on_unchanged_tree"] = "pass" if rc0 == 0 else "FAIL"
            clean()
            rc, out = sh("git apply --check '%s'" % src)
            if rc != 0:
                res["status"] = "patch does not apply: " + out[-200:]
                summary.append(res)
                continue
            sh("git apply '%s'" % src)
            t0 = time.time()
            rcb, outb = sh("go build ./... && go test -vet=off -count=1 ./...")
            res["suite_with_change"] = "pass" if rcb == 0 else "FAIL"
            res["suite_seconds"] = round(time.time() - t0)
            shutil.copy(demo, dst)
            rc1, out1 = sh(democmd)
            res["demo_with_change"] = "fail" if rc1 != 0 else "PASS"
            clean()
            ok = rc0 == 0 and rcb == 0 and rc1 != 0
            res["status"] = "confirmed" if ok else "rejected"
            if not ok:
                res["detail"] = {"demo0": out0[-600:], "suite": "\n".join(l for l in outb.splitlines() if not l.startswith("ok") and "no test files" not in l)[-1200:], "demo1": out1[-300:]}
            else:
                d = os.path.join(OUT, name)
                os.makedirs(d, exist_ok=True)
                shutil.copy(src, os.path.join(d, "patch.diff"))
                shutil.copy(demo, os.path.join(d, os.path.basename(demo)))
                note = open(md, errors="replace").read() if os.path.exists(md) else ""
                meta = {"id": name, "property": pid, "breaks": pid, "base_commit": head,
                        "files_changed": re.findall(r"^\+\+\+ b/(\S+)", open(src).read(), re.M),
                        "demo": {"file": os.path.basename(demo), "place_in": pkgdir + "/", "run": democmd},
                        "needs_to_manifest_and_author_notes": note,
                        "confirmed": {"demo_on_unchanged_tree": "pass", "build_and_full_suite_with_change": "pass (%ds)" % res["suite_seconds"],
                                      "demo_with_change": "fail", "demo_failure_tail": out1[-500:]},
                        "adapted_from_original": src != patch}
                # keep detection results recorded by tools/trymut.sh if present
                old = os.path.join(d, "meta.json")
                if os.path.exists(old):
                    try:
                        meta["detected_by"] = json.load(open(old)).get("detected_by")
                    except Exception:
                        pass
                json.dump(meta, open(old, "w"), indent=1)
            summary.append(res)
            print(json.dumps({k2: v for k2, v in res.items() if k2 != "detail"}), flush=True)
    finally:
        subprocess.run(["git", "-C", "/repo", "worktree", "remove", "--force", WT])
        subprocess.run(["git", "-C", "/repo", "worktree", "prune"])
    json.dump(summary, open("/tmp/scratch/confirm_summary.json", "w"), indent=1)


if __name__ == "__main__":
    main()
