#!/usr/bin/env python3
"""usage: gv.py <pkgs> <funcs> [timeout]  -- run govc on some functions and print what is not discharged."""
import json, subprocess, sys, os
V = os.path.dirname(os.path.dirname(os.path.abspath(__file__)))
repo = os.environ.get("VERIF_REPO", "/repo")
os.makedirs("/tmp/scratch", exist_ok=True)
out = "/tmp/scratch/gv_%d.json" % os.getpid()
cmd = [os.environ.get("GOVC", os.path.join(V, "bin", "govc")), "-repo", repo, "-verif", V, "-pkgs", sys.argv[1], "-funcs", sys.argv[2], "-timeout", sys.argv[3] if len(sys.argv) > 3 else "10", "-out", out] + sys.argv[4:]
subprocess.run(cmd)
r = json.load(open(out)); os.remove(out)
for fn in r["functions"]:
    obs = fn.get("obligations") or []
    n = [o for o in obs if o["kind"] not in ("reach", "pre-sat")]
    print("==", fn["func"], fn["status"], fn.get("error", "")[:400], "obligations", len(n), "discharged", sum(o["status"] == "discharged" for o in n), "maxms", max([o.get("ms", 0) for o in obs] + [0]))
    for n_ in fn.get("notes") or []:
        print("   note:", n_[:200])
    for ob in obs:
        if ob["kind"] in ("reach", "pre-sat"):
            if ob["status"] != "cover-ok":
                print("   cover", ob["status"], ob["name"])
            continue
        if ob["status"] != "discharged":
            print("  ", ob["status"], ob["name"], ob["text"][:160])
