//go:build verif

package contracts

// Trusted contracts of library functions (assumed, never verified; every use is listed in the
// evidence under trusted_base). Keyed by "<package name>.<function>".

//@ func strings.IndexByte
//@   trusted documented behaviour of strings.IndexByte
//@   pure
//@   ensures result == -1 ==> forall k in 0..len(s) :: s[k] != c
//@   ensures result != -1 ==> 0 <= result && result < len(s) && s[result] == c && forall k in 0..result :: s[k] != c
//@   ensures -1 <= result

//@ func strings.LastIndexByte
//@   trusted documented behaviour of strings.LastIndexByte
//@   pure
//@   ensures result == -1 ==> forall k in 0..len(s) :: s[k] != c
//@   ensures result != -1 ==> 0 <= result && result < len(s) && s[result] == c && forall k in result+1..len(s) :: s[k] != c
//@   ensures -1 <= result

//@ func utf8.DecodeRuneInString
//@   trusted documented behaviour of utf8.DecodeRuneInString (width 0 iff empty; 1..4 otherwise; ASCII bytes decode to themselves; a non-ASCII lead byte never yields an ASCII rune)
//@   pure
//@   ensures len(s) == 0 ==> result0 == 65533 && result1 == 0
//@   ensures len(s) > 0 ==> 1 <= result1 && result1 <= 4 && result1 <= len(s)
//@   ensures len(s) > 0 && s[0] < 128 ==> result0 == s[0] && result1 == 1
//@   ensures len(s) > 0 && s[0] >= 128 ==> result0 >= 128
//@   ensures 0 <= result0 && result0 <= 1114111
//@   ensures result1 > 1 ==> forall k in 0..result1 :: s[k] >= 128
//@   ensures result0 >= 65536 ==> result1 == 4
//@   ensures result1 == 1 ==> result0 < 128 || result0 == 65533

//@ func slices.Clone
//@   trusted documented behaviour of slices.Clone: a new slice holding the same elements
//@   ensures fresh(result) && len(result) == len(s) && forall k in 0..len(s) :: result[k] == s[k]
//@   ensures forall k in 0..len(s) :: s[k] == result[k]

//@ func unicode.IsLetter
//@   trusted unicode.IsLetter agrees with [A-Za-z] on ASCII
//@   pure
//@   ensures r < 128 ==> (result <==> (r >= 'a' && r <= 'z' || r >= 'A' && r <= 'Z'))

//@ func unicode.IsDigit
//@   trusted unicode.IsDigit agrees with [0-9] on ASCII
//@   pure
//@   ensures r < 128 ==> (result <==> (r >= '0' && r <= '9'))

//@ func bits.TrailingZeros32
//@   trusted documented behaviour of math/bits.TrailingZeros32: the number of trailing zero bits, 32 for x == 0
//@   pure
//@   mode bv
//@   ensures 0 <= result && result <= 32 && (result == 32 <==> x == 0)
//@   ensures x != 0 ==> (x >> uint32(result)) & 1 == 1
//@   ensures x != 0 ==> x & ((uint32(1) << uint32(result)) - 1) == 0

//@ func bits.Len32
//@   trusted documented behaviour of math/bits.Len32: the minimum number of bits required to represent x; 0 for x == 0
//@   pure
//@   mode bv
//@   ensures 0 <= result && result <= 32 && (result == 0 <==> x == 0)
//@   ensures result < 32 ==> x >> uint32(result) == 0
//@   ensures x != 0 ==> (x >> uint32(result - 1)) & 1 == 1

//@ func strings.HasPrefix
//@   trusted documented behaviour of strings.HasPrefix
//@   pure
//@   ensures result <==> (len(s) >= len(prefix) && forall k in 0..len(prefix) :: s[k] == prefix[k])

//@ func strings.Index
//@   trusted documented behaviour of strings.Index: -1, or the offset of an occurrence of substr in s
//@   pure
//@   ensures -1 <= result && (result >= 0 ==> result + len(substr) <= len(s))

//@ func strconv.Atoi
//@   trusted documented behaviour of strconv.Atoi on a string of decimal digits: a non-negative value, or an error (empty string, overflow)
//@   ensures (result1 == nil && forall k in 0..len(s) :: s[k] >= '0' && s[k] <= '9') ==> result0 >= 0
