package compiler

// C14 (bounded), front end included: templated grammars written as .tm TEXT (global %flags,
// inline flags shared by name, %lookahead flags, explicit +/~ arguments and implicit propagation)
// are compiled by the real pipeline (resolveRef, PropagateLookaheads, Instantiate, Expand); the
// plain rules that come out must derive, from every input, exactly the strings that the templated
// source derives under the documented parameter passing rules, computed here from the generator's
// own syntax tree.

import (
	"context"
	"fmt"
	"os"
	"sort"
	"strings"
	"testing"

	"github.com/inspirer/textmapper/status"
)

type g14Param struct {
	name   string
	def    string // "", "true" or "false"
	inline bool
}

type g14Arg struct {
	name string
	val  bool
}

type g14Sym struct {
	term int // >0: terminal; 0: nonterminal nt
	nt   int
	args []g14Arg
}

type g14Pred struct {
	op   byte // 'v' name, '!' not, '&', '|'
	name string
	sub  []*g14Pred
}

type g14Alt struct {
	pred *g14Pred
	syms []g14Sym
}

type g14NT struct {
	name   string
	params []g14Param // declared parameters (global flags listed by name, or inline flags)
	alts   []g14Alt
}

type g14Grammar struct {
	globals []g14Param
	la      []string
	nts     []*g14NT
}

func (p *g14Pred) String() string {
	switch p.op {
	case 'v':
		return p.name
	case '!':
		return "!" + p.sub[0].String()
	case '&':
		return p.sub[0].String() + " && " + p.sub[1].String()
	}
	// the notation has no parentheses: && binds tighter than ||, ! applies to a parameter
	return p.sub[0].String() + " || " + p.sub[1].String()
}

func (p *g14Pred) eval(env map[string]bool) bool {
	switch p.op {
	case 'v':
		return env[p.name]
	case '!':
		return !p.sub[0].eval(env)
	case '&':
		return p.sub[0].eval(env) && p.sub[1].eval(env)
	}
	return p.sub[0].eval(env) || p.sub[1].eval(env)
}

var g14Terms = []string{"", "'a'", "'b'", "'c'"}

func (g *g14Grammar) text() string {
	var sb strings.Builder
	sb.WriteString("language g14(go);\n\n:: lexer\n\n'a': /a/\n'b': /b/\n'c': /c/\n\n:: parser\n\n%input In;\n\n")
	for _, p := range g.globals {
		if p.def != "" {
			fmt.Fprintf(&sb, "%%flag %s = %s;\n", p.name, p.def)
		} else {
			fmt.Fprintf(&sb, "%%flag %s;\n", p.name)
		}
	}
	for _, l := range g.la {
		fmt.Fprintf(&sb, "%%lookahead flag %s;\n", l)
	}
	sb.WriteString("\n")
	for _, nt := range g.nts {
		sb.WriteString(nt.name)
		if len(nt.params) > 0 {
			var ps []string
			for _, p := range nt.params {
				switch {
				case p.inline && p.def != "":
					ps = append(ps, fmt.Sprintf("flag %s = %s", p.name, p.def))
				case p.inline:
					ps = append(ps, "flag "+p.name)
				default:
					ps = append(ps, p.name)
				}
			}
			sb.WriteString("<" + strings.Join(ps, ", ") + ">")
		}
		sb.WriteString(" :\n")
		for i, alt := range nt.alts {
			if i == 0 {
				sb.WriteString("    ")
			} else {
				sb.WriteString("  | ")
			}
			if alt.pred != nil {
				sb.WriteString("[" + alt.pred.String() + "] ")
			}
			if len(alt.syms) == 0 {
				sb.WriteString("%empty ")
			}
			for _, s := range alt.syms {
				if s.term > 0 {
					sb.WriteString(g14Terms[s.term] + " ")
					continue
				}
				sb.WriteString(g.nts[s.nt].name)
				if len(s.args) > 0 {
					var as []string
					for _, a := range s.args {
						if a.val {
							as = append(as, "+"+a.name)
						} else {
							as = append(as, "~"+a.name)
						}
					}
					sb.WriteString("<" + strings.Join(as, ", ") + ">")
				}
				sb.WriteString(" ")
			}
			sb.WriteString("\n")
		}
		sb.WriteString(";\n\n")
	}
	return sb.String()
}

// g14RandPred draws a disjunction (depth 2) of conjunctions (depth 1) of literals (depth 0).
func g14RandPred(r *vRand, names []string, depth int) *g14Pred {
	if depth == 0 || r.Intn(2) == 0 {
		if depth == 2 {
			return g14RandPred(r, names, 1)
		}
		p := &g14Pred{op: 'v', name: names[r.Intn(len(names))]}
		if r.Intn(3) == 0 {
			return &g14Pred{op: '!', sub: []*g14Pred{p}}
		}
		return p
	}
	if depth == 2 {
		return &g14Pred{op: '|', sub: []*g14Pred{g14RandPred(r, names, 1), g14RandPred(r, names, 1)}}
	}
	return &g14Pred{op: '&', sub: []*g14Pred{g14RandPred(r, names, 0), g14RandPred(r, names, 0)}}
}

// g14Chain is a directed family for two lookahead flags: V is set by an explicit argument at the
// top, travels implicitly through first positions (In -> Na -> Nb), and Nb adds the OTHER flag W
// by an explicit argument on its way to Nc, which tests both. Nc has to be instantiated with V from
// Nb's own instance and W from the argument. (Seeded change C14-r12m2 computed the set of flags to
// propagate once for the whole grammar instead of per reference; no random grammar of the quick
// tier had this shape.)
func g14Chain(r *vRand) *g14Grammar {
	v, w := "L0", "L1"
	if r.Intn(2) == 0 {
		v, w = w, v
	}
	t := func() g14Sym { return g14Sym{term: 1 + r.Intn(3)} }
	// the path stays short (the texts of the quick tier have <= 4 tokens): a trailing terminal after
	// a reference only now and then, and Nc's alternatives start with three different terminals
	tail := func(syms ...g14Sym) []g14Sym {
		if r.Intn(3) == 0 {
			return append(syms, t())
		}
		return syms
	}
	perm := [][3]int{{1, 2, 3}, {1, 3, 2}, {2, 1, 3}, {2, 3, 1}, {3, 1, 2}, {3, 2, 1}}[r.Intn(6)]
	lit := func(n string) *g14Pred { return &g14Pred{op: 'v', name: n} }
	g := &g14Grammar{la: []string{"L0", "L1"}}
	in := &g14NT{name: "In"}
	in.alts = append(in.alts, g14Alt{syms: tail(g14Sym{nt: 1, args: []g14Arg{{v, true}}})})
	if r.Intn(2) == 0 {
		in.alts = append(in.alts, g14Alt{syms: []g14Sym{{nt: 3, args: []g14Arg{{w, r.Intn(2) == 0}}}, t()}})
	}
	in.alts = append(in.alts, g14Alt{syms: []g14Sym{t(), t()}})
	na := &g14NT{name: "Na"}
	na.alts = append(na.alts, g14Alt{syms: tail(g14Sym{nt: 2})})
	if r.Intn(2) == 0 {
		na.alts = append(na.alts, g14Alt{syms: []g14Sym{{nt: 3}}})
	}
	na.alts = append(na.alts, g14Alt{syms: []g14Sym{t()}})
	nb := &g14NT{name: "Nb"}
	nb.alts = append(nb.alts, g14Alt{syms: []g14Sym{{nt: 3, args: []g14Arg{{w, r.Intn(3) != 0}}}, t()}}, g14Alt{syms: []g14Sym{t()}})
	nc := &g14NT{name: "Nc"}
	nc.alts = append(nc.alts, g14Alt{pred: lit(v), syms: []g14Sym{{term: perm[0]}}}, g14Alt{pred: lit(w), syms: []g14Sym{{term: perm[1]}, t()}})
	if r.Intn(2) == 0 {
		nc.alts = append(nc.alts, g14Alt{pred: &g14Pred{op: '&', sub: []*g14Pred{lit(v), &g14Pred{op: '!', sub: []*g14Pred{lit(w)}}}}, syms: []g14Sym{{term: perm[0]}, {term: perm[0]}, t()}})
	}
	nc.alts = append(nc.alts, g14Alt{syms: []g14Sym{{term: perm[2]}}})
	g.nts = []*g14NT{in, na, nb, nc}
	return g
}

func g14Gen(r *vRand) *g14Grammar {
	g := &g14Grammar{}
	for i := 0; i < r.Intn(3); i++ {
		g.globals = append(g.globals, g14Param{name: fmt.Sprintf("G%d", i), def: []string{"", "true", "false"}[r.Intn(3)]})
	}
	for i, nla := 0, []int{0, 1, 2, 2}[r.Intn(4)]; i < nla; i++ {
		g.la = append(g.la, fmt.Sprintf("L%d", i))
	}
	names := []string{"In", "Na", "Nb", "Nc", "Nd"}
	nn := 3 + r.Intn(3)
	for k := 0; k < nn; k++ {
		nt := &g14NT{name: names[k]}
		if k > 0 {
			for _, gp := range g.globals {
				if r.Intn(2) == 0 {
					nt.params = append(nt.params, gp)
				}
			}
			if r.Intn(2) == 0 {
				// inline flags are matched by NAME between nonterminals
				nt.params = append(nt.params, g14Param{name: "X", def: []string{"", "true", "false"}[r.Intn(3)], inline: true})
			}
		}
		g.nts = append(g.nts, nt)
	}
	// which lookahead flags a nonterminal tests in its own predicates
	usesLA := make([]map[string]bool, nn)
	for k := range usesLA {
		usesLA[k] = map[string]bool{}
		for _, l := range g.la {
			if k > 0 && r.Intn(3) != 0 {
				usesLA[k][l] = true
			}
		}
	}
	for k, nt := range g.nts {
		var own []string
		for _, p := range nt.params {
			own = append(own, p.name)
		}
		predNames := append([]string(nil), own...)
		for _, l := range g.la {
			if usesLA[k][l] {
				predNames = append(predNames, l)
			}
		}
		ref := func(first bool) g14Sym {
			t := 1 + r.Intn(nn-1)
			s := g14Sym{nt: t}
			for _, q := range g.nts[t].params {
				declared := false
				for _, o := range own {
					declared = declared || o == q.name
				}
				if (declared || q.def != "") && r.Intn(2) == 0 {
					continue // implicit: same-named parameter of the enclosing nonterminal, else the default
				}
				s.args = append(s.args, g14Arg{q.name, r.Intn(2) == 0})
			}
			for _, l := range g.la {
				// explicit lookahead arguments only for targets that test the flag themselves
				// ("L is not used in N" otherwise)
				if usesLA[t][l] && r.Intn(2) == 0 || r.Intn(6) == 0 {
					s.args = append(s.args, g14Arg{l, r.Intn(3) != 0})
				}
			}
			return s
		}
		nalts := 2 + r.Intn(2)
		for a := 0; a < nalts; a++ {
			alt := g14Alt{}
			for j := 0; j < 1+r.Intn(3); j++ {
				// first symbols are nonterminals more often: lookahead flags travel through them
				if r.Intn(5) < 2 || (j == 0 && r.Intn(2) == 0) || (k == 0 && a == 0 && j == 0) {
					alt.syms = append(alt.syms, ref(j == 0))
				} else {
					alt.syms = append(alt.syms, g14Sym{term: 1 + r.Intn(3)})
				}
			}
			if len(predNames) > 0 && k > 0 && r.Intn(2) == 0 {
				alt.pred = g14RandPred(r, predNames, 2)
			}
			nt.alts = append(nt.alts, alt)
		}
		for _, l := range g.la {
			if usesLA[k][l] {
				alt := g14Alt{pred: &g14Pred{op: 'v', name: l}}
				if r.Intn(2) == 0 {
					alt.syms = append(alt.syms, ref(true))
				}
				alt.syms = append(alt.syms, g14Sym{term: 1 + r.Intn(3)}, g14Sym{term: 1 + r.Intn(3)})
				nt.alts = append(nt.alts, alt)
			}
		}
		// one unconditional terminal alternative keeps every instance productive
		nt.alts = append(nt.alts, g14Alt{syms: []g14Sym{{term: 1 + r.Intn(3)}}})
		// a genuine empty alternative (plain or under a predicate) in some nonterminals other than the
		// input: instantiation has to keep it (seeded change C14-r7m2 dropped %empty inside a choice)
		if k > 0 && r.Intn(3) == 0 {
			alt := g14Alt{}
			if len(predNames) > 0 && r.Intn(2) == 0 {
				alt.pred = g14RandPred(r, predNames, 2)
			}
			nt.alts = append(nt.alts, alt)
		}
	}
	return g
}

// ---- plain grammars and an Earley recogniser ----

type g14cfg struct {
	nterm int
	rules map[int][][]int
	next  int
}

type g14item struct{ lhs, alt, dot, origin int }

func (g *g14cfg) accepts(start int, w []int) bool {
	n := len(w)
	sets := make([]map[g14item]bool, n+1)
	order := make([][]g14item, n+1)
	for i := range sets {
		sets[i] = map[g14item]bool{}
	}
	add := func(k int, it g14item) {
		if !sets[k][it] {
			sets[k][it] = true
			order[k] = append(order[k], it)
		}
	}
	for a := range g.rules[start] {
		add(0, g14item{start, a, 0, 0})
	}
	nullable := map[int]bool{}
	for changed := true; changed; {
		changed = false
		for lhs, alts := range g.rules {
			if nullable[lhs] {
				continue
			}
			for _, alt := range alts {
				ok := true
				for _, s := range alt {
					if s < g.nterm || !nullable[s] {
						ok = false
					}
				}
				if ok {
					nullable[lhs] = true
					changed = true
				}
			}
		}
	}
	for k := 0; k <= n; k++ {
		for idx := 0; idx < len(order[k]); idx++ {
			it := order[k][idx]
			rhs := g.rules[it.lhs][it.alt]
			if it.dot < len(rhs) {
				s := rhs[it.dot]
				if s >= g.nterm {
					for a := range g.rules[s] {
						add(k, g14item{s, a, 0, k})
					}
					if nullable[s] {
						add(k, g14item{it.lhs, it.alt, it.dot + 1, it.origin})
					}
				} else if k < n && w[k] == s {
					add(k+1, g14item{it.lhs, it.alt, it.dot + 1, it.origin})
				}
			} else {
				for _, p := range order[it.origin] {
					prhs := g.rules[p.lhs][p.alt]
					if p.dot < len(prhs) && prhs[p.dot] == it.lhs {
						add(k, g14item{p.lhs, p.alt, p.dot + 1, p.origin})
					}
				}
			}
		}
	}
	for it := range sets[n] {
		if it.lhs == start && it.origin == 0 && it.dot == len(g.rules[start][it.alt]) {
			return true
		}
	}
	return false
}

// g14Denote builds the plain grammar that the templated source denotes. Terminals are 1..3.
//   - a declared parameter of the target gets: the explicit +/~ argument; else the value of the
//     SAME-NAMED parameter of the enclosing nonterminal; else its default value;
//   - a lookahead flag is true in an instance iff it was set by an explicit argument on the path of
//     entry-point (first symbol) references leading to it; explicit arguments override, references
//     that are not the first symbol of their alternative start from "all false".
// ok=false when some parameter has no value (the compiler must then report an error).
func g14Denote(g *g14Grammar) (cfg *g14cfg, start int, ok bool) {
	cfg = &g14cfg{nterm: 4, rules: map[int][][]int{}, next: 4}
	memo := map[string]int{}
	ok = true
	var inst func(nt int, env, la map[string]bool) int
	key := func(nt int, env, la map[string]bool) string {
		var ks []string
		for k, v := range env {
			ks = append(ks, fmt.Sprintf("%s=%v", k, v))
		}
		for k, v := range la {
			if v {
				ks = append(ks, "la:"+k)
			}
		}
		sort.Strings(ks)
		return fmt.Sprint(nt, ks)
	}
	inst = func(nt int, env, la map[string]bool) int {
		k := key(nt, env, la)
		if s, seen := memo[k]; seen {
			return s
		}
		s := cfg.next
		cfg.next++
		memo[k] = s
		cfg.rules[s] = [][]int{}
		all := map[string]bool{}
		for n, v := range env {
			all[n] = v
		}
		for n, v := range la {
			all[n] = v
		}
		for _, alt := range g.nts[nt].alts {
			if alt.pred != nil && !alt.pred.eval(all) {
				continue
			}
			var rhs []int
			for j, sym := range alt.syms {
				if sym.term > 0 {
					rhs = append(rhs, sym.term)
					continue
				}
				explicit := map[string]bool{}
				has := map[string]bool{}
				for _, a := range sym.args {
					explicit[a.name] = a.val
					has[a.name] = true
				}
				nenv := map[string]bool{}
				for _, q := range g.nts[sym.nt].params {
					if has[q.name] {
						nenv[q.name] = explicit[q.name]
					} else if v, declared := env[q.name]; declared {
						nenv[q.name] = v
					} else if q.def != "" {
						nenv[q.name] = q.def == "true"
					} else {
						ok = false
					}
				}
				nla := map[string]bool{}
				for _, l := range g.la {
					switch {
					case has[l]:
						nla[l] = explicit[l]
					case j == 0:
						nla[l] = la[l]
					}
				}
				rhs = append(rhs, inst(sym.nt, nenv, nla))
			}
			cfg.rules[s] = append(cfg.rules[s], rhs)
		}
		return s
	}
	start = inst(0, map[string]bool{}, map[string]bool{})
	return cfg, start, ok
}

func TestVerifC14Compiler(t *testing.T) {
	ck := vNew("C14/compiled-templates", "seeded templated grammars as .tm text: 0..2 global %flags (with and without defaults), an inline flag X declared by several nonterminals, 0..2 %lookahead flags, 3..4 nonterminals of 3..4 alternatives with predicates (! && ||), explicit +/~ arguments and implicit propagation, every 8th grammar a directed chain In -> Na -> Nb -> Nc that carries one lookahead flag implicitly and adds the other explicitly; all terminal strings of length <=4 (<=5 thorough) from the input", false,
		"syntaxLoader.resolveRef", "syntaxLoader.resolveParam", "syntaxLoader.sortArgs", "syntax.PropagateLookaheads", "syntax.Instantiate", "syntax.Expand", "Compile")
	r := vNewRand(vSeed() + 141)
	n, maxLen := 2500, 4
	if vTier() == "thorough" {
		n, maxLen = 20000, 5
	}
	var words [][]int
	prev := [][]int{{}}
	words = append(words, []int{})
	for l := 1; l <= maxLen; l++ {
		var cur [][]int
		for _, p := range prev {
			for t := 1; t <= 3; t++ {
				cur = append(cur, append(append([]int(nil), p...), t))
			}
		}
		words = append(words, cur...)
		prev = cur
	}
	rejected := map[string]int{}
	for i := 0; i < n; i++ {
		g := g14Gen(r)
		if i%8 == 7 {
			g = g14Chain(r) // directed: two lookahead flags, one implicit and one explicit on the same path
		}
		text := g.text()
		ref, start, defined := g14Denote(g)
		if tr := os.Getenv("VERIF_C14_TRACE"); tr != "" {
			// the compiler may end the process (log.Fatal): keep the grammar being compiled
			os.WriteFile(tr, []byte(text), 0o644)
		}
		gr, err := Compile(context.Background(), "g14.tm", text, Params{CheckOnly: true})
		fatal := ""
		if err != nil {
			for _, e := range status.FromError(err) {
				if !strings.Contains(e.Msg, "conflict") && !strings.Contains(e.Msg, "input:") {
					fatal = e.Msg
					break
				}
			}
		}
		if fatal != "" || gr == nil || gr.Parser == nil || len(gr.Parser.Rules) == 0 {
			ck.Case(false)
			if !defined {
				continue
			}
			// rejected although every parameter has a value: legitimate for unused / unusable
			// lookahead flags; counted, not failed
			k := fatal
			if len(k) > 40 {
				k = k[:40]
			}
			rejected[k]++
			continue
		}
		if !defined {
			ck.Case(true)
			ck.Failf(text, "a reference leaves a parameter without a value (no argument, no same-named parameter, no default) but the grammar compiles")
			continue
		}
		ck.Case(true)
		if i < 3 {
			ck.Sample(strings.ReplaceAll(text[strings.Index(text, "%input"):], "\n", " "))
		}
		got := &g14cfg{nterm: gr.NumTokens, rules: map[int][][]int{}}
		for _, rule := range gr.Parser.Rules {
			var rhs []int
			for _, s := range rule.RHS {
				if s.IsStateMarker() {
					continue
				}
				rhs = append(rhs, int(s))
			}
			got.rules[int(rule.LHS)] = append(got.rules[int(rule.LHS)], rhs)
		}
		// terminal numbering of the compiled grammar
		tmap := map[int]int{}
		for t := 1; t <= 3; t++ {
			for si, sym := range gr.Syms[:gr.NumTokens] {
				if sym.Name == g14Terms[t] {
					tmap[t] = si
				}
			}
		}
		gstart := gr.NumTokens + gr.Parser.Inputs[0].Nonterm
		for _, w := range words {
			mw := make([]int, len(w))
			for k, t := range w {
				mw[k] = tmap[t]
			}
			if x, y := ref.accepts(start, w), got.accepts(gstart, mw); x != y {
				var rules []string
				for _, rule := range gr.Parser.Rules {
					var rhs []string
					for _, s := range rule.RHS {
						if !s.IsStateMarker() {
							rhs = append(rhs, gr.Syms[s].Name)
						}
					}
					rules = append(rules, gr.Syms[rule.LHS].Name+": "+strings.Join(rhs, " "))
				}
				ck.Failf(text, "terminals %v from In: the templated source derives it = %v, the compiled rules derive it = %v\ncompiled rules: %s", w, x, y, strings.Join(rules, "; "))
				break
			}
		}
	}
	ck.Samples = append(ck.Samples, fmt.Sprintf("rejected by the compiler (first 40 characters of the message -> count): %v", rejected))
	if ck.Nontrivial < n/10 {
		ck.Failf(fmt.Sprint(rejected), "only %d of %d generated grammars compiled: the harness explores too little", ck.Nontrivial, n)
	}
	vWrite(t, []string{"the denotation of the templated source follows the parameter passing rules in the harness header (explicit argument, same-named parameter, default; lookahead flags flow through first-symbol references only)", "grammars rejected by the compiler for reasons other than LALR conflicts are skipped (unused lookahead flags, flags that cannot be propagated through nullable alternatives)"}, ck)
}
