package lex

// Bounded executable contract for Tables.CompressedMap and Tables.SymbolArr (C11): the two
// rune-to-symbol maps that generated lexers index. For seeded symbol maps (segment lengths 1..3, 9,
// 40, 300; targets up to 700, i.e. beyond one byte) and every start, the lookup through the
// compressed entries - done the way the generated mapRune does it - agrees with the symbol map for
// every rune from `start` up to the start of the last segment, and so does the array form.

import (
	"fmt"
	"sort"
	"testing"
)

func c11symbolOf(m []RangeEntry, r rune) Sym {
	i := sort.Search(len(m), func(i int) bool { return i+1 == len(m) || m[i+1].Start > r })
	return m[i].Target
}

// c11mapRune is the lookup of go_lexer.go.tmpl's mapRune over CompressedEntry values.
func c11mapRune(entries []CompressedEntry, def int, c rune) int {
	lo, hi := 0, len(entries)
	for lo < hi {
		m := lo + (hi-lo)/2
		r := entries[m]
		if c < r.Lo {
			hi = m
		} else if c >= r.Hi {
			lo = m + 1
		} else {
			i := int(c - r.Lo)
			if i < len(r.Vals) {
				return r.Vals[i]
			}
			return r.DefaultVal
		}
	}
	return def
}

func TestVerifC11Maps(t *testing.T) {
	ck := vNew("C11/compressed-map", "seeded symbol maps of 2..14 segments (segment lengths from {1,2,3,9,40,300}, targets up to 700), starts in {0, 1, 2, 128, 256, a segment boundary +-1}: CompressedMap looked up like the generated mapRune, and SymbolArr with maxRune in {0, 7, 300}, agree with the symbol map on every rune below the last segment", false,
		"Tables.CompressedMap", "Tables.SymbolArr", "Tables.LastMapEntry")
	r := vNewRand(vSeed() + 71)
	n := 400
	if vTier() == "thorough" {
		n = 20000
	}
	lens := []int{1, 2, 3, 9, 40, 300}
	for it := 0; it < n; it++ {
		segs := 2 + r.Intn(13)
		var m []RangeEntry
		pos := rune(0)
		maxT := 3
		if it%3 == 0 {
			maxT = 700
		}
		var prev Sym = -1
		for k := 0; k < segs; k++ {
			tg := Sym(r.Intn(maxT))
			for tg == prev {
				tg = Sym(r.Intn(maxT + 1))
			}
			prev = tg
			m = append(m, RangeEntry{Start: pos, Target: tg})
			pos += rune(lens[r.Intn(len(lens))])
		}
		tb := &Tables{SymbolMap: m, NumSymbols: 701}
		last := m[len(m)-1]
		desc := fmt.Sprintf("map %v", m)
		starts := []rune{0, 1, 2, 128, 256, m[len(m)/2].Start, m[len(m)/2].Start + 1}
		if s := m[len(m)/2].Start - 1; s >= 0 {
			starts = append(starts, s)
		}
		ck.Case(true)
		if it < 3 {
			ck.Sample(desc)
		}
		bad := false
		for _, start := range starts {
			if start >= last.Start {
				continue
			}
			var entries []CompressedEntry
			if p := vRecover(func() { entries = tb.CompressedMap(start) }); p != "" {
				ck.Failf(desc, "CompressedMap(%d) panicked: %s", start, p)
				bad = true
				break
			}
			for i := 1; i < len(entries); i++ {
				if entries[i-1].Hi > entries[i].Lo || entries[i].Lo >= entries[i].Hi {
					ck.Failf(desc, "CompressedMap(%d): entries are not sorted and disjoint: %v", start, entries)
					bad = true
				}
			}
			for c := start; c < last.Start && !bad; c++ {
				if got, want := c11mapRune(entries, int(last.Target), c), int(c11symbolOf(m, c)); got != want {
					ck.Failf(desc, "CompressedMap(%d): rune %d maps to symbol %d, the symbol map says %d (entries %v)", start, c, got, want, entries)
					bad = true
				}
			}
			if bad {
				break
			}
		}
		for _, maxRune := range []rune{0, 7, 300} {
			if bad {
				break
			}
			var arr []int
			if p := vRecover(func() { arr = tb.SymbolArr(maxRune) }); p != "" {
				ck.Failf(desc, "SymbolArr(%d) panicked: %s", maxRune, p)
				break
			}
			want := int(last.Start)
			if maxRune != 0 && int(maxRune) < want {
				want = int(maxRune)
			}
			if len(arr) != want {
				ck.Failf(desc, "SymbolArr(%d) has %d entries, want %d", maxRune, len(arr), want)
				break
			}
			for c := range arr {
				if arr[c] != int(c11symbolOf(m, rune(c))) {
					ck.Failf(desc, "SymbolArr(%d)[%d] = %d, the symbol map says %d", maxRune, c, arr[c], c11symbolOf(m, rune(c)))
					bad = true
					break
				}
			}
		}
	}
	vWrite(t, []string{"the lookup over CompressedEntry values is a transcription of mapRune in go_lexer.go.tmpl"}, ck)
}
