package compiler

// C22 (bounded): the compiler survives templated grammars, including wrong ones.
//
// The templated grammars of the C14 text generator are decorated with constructs that interact
// with templates: lookahead predicates over (templated) nonterminals, named sets (also mutually
// recursive) used inside rules, references back to the input nonterminal with flag arguments,
// and plain mistakes (unknown flags, duplicate arguments, missing values). There is no language
// oracle here: Compile must return (with or without diagnostics whose ranges lie inside the
// text) instead of panicking or ending the process. The grammar being compiled is written to
// $VERIF_TRACE first, so that a process death (log.Fatal, stack overflow) still names its input.

import (
	"context"
	"fmt"
	"os"
	"strings"
	"testing"

	"github.com/inspirer/textmapper/status"
)

func g22Decorate(r *vRand, g *g14Grammar) string {
	text := g.text()
	lines := strings.Split(text, "\n")
	var nts []string
	for _, nt := range g.nts {
		nts = append(nts, nt.name)
	}
	flags := append([]string(nil), g.la...)
	for _, p := range g.globals {
		flags = append(flags, p.name)
	}
	flags = append(flags, "X", "Zz")
	isAlt := func(l string) bool { return strings.HasPrefix(l, "    ") || strings.HasPrefix(l, "  | ") }
	withSets := r.Intn(3) == 0
	for i, l := range lines {
		if !isAlt(l) {
			continue
		}
		head, rest := l[:4], l[4:]
		pred := ""
		if strings.HasPrefix(rest, "[") {
			k := strings.Index(rest, "] ")
			pred, rest = rest[:k+2], rest[k+2:]
		}
		switch r.Intn(12) {
		case 0:
			rest = fmt.Sprintf("(?= %s) ", nts[1+r.Intn(len(nts)-1)]) + rest
		case 1:
			rest = fmt.Sprintf("(?= !%s & %s) ", nts[1+r.Intn(len(nts)-1)], nts[1+r.Intn(len(nts)-1)]) + rest
		case 2:
			// a reference back to the input, possibly with a flag argument
			if r.Intn(2) == 0 {
				rest += fmt.Sprintf("In<+%s> ", flags[r.Intn(len(flags))])
			} else {
				rest += "In "
			}
		case 3:
			if withSets {
				rest += fmt.Sprintf("set(s%d) ", 1+r.Intn(2))
			}
		case 4:
			// a mistake in an argument list
			if k := strings.Index(rest, "<+"); k >= 0 {
				switch r.Intn(3) {
				case 0:
					rest = rest[:k+2] + "Zz, +" + rest[k+2:]
				case 1:
					rest = rest[:k+1] + rest[k+2:] // "<Name" without a value
				default:
					e := strings.Index(rest[k:], ">")
					arg := rest[k+1 : k+e]
					rest = rest[:k+1] + arg + ", " + arg + rest[k+e:]
				}
			}
		case 5:
			if pred != "" && r.Intn(2) == 0 {
				pred = "[" + flags[r.Intn(len(flags))] + "] "
			}
		case 6, 7:
			// an optional symbol: with maxLookahead set, the lookahead nonterminals are measured
			// (longestPhrase) and every expression kind has to be handled there
			for _, tn := range []string{"'a' ", "'b' ", "'c' "} {
				if k := strings.LastIndex(rest, tn); k >= 0 {
					rest = rest[:k] + tn[:3] + "? " + rest[k+4:]
					break
				}
			}
		}
		lines[i] = head + pred + rest
	}
	text = strings.Join(lines, "\n")
	if withSets {
		decl := ""
		switch r.Intn(3) {
		case 0:
			decl = "%generate s1 = set(s2 | 'a');\n%generate s2 = set(s1 | 'b');\n"
		case 1:
			decl = fmt.Sprintf("%%generate s1 = set(first %s | 'a');\n%%generate s2 = set(~s1 & follow %s);\n", nts[r.Intn(len(nts))], nts[r.Intn(len(nts))])
		default:
			decl = "%generate s1 = set('a' | 'c');\n%generate s2 = set(~s2);\n"
		}
		text = strings.Replace(text, "%input In;\n", "%input In;\n"+decl, 1)
	}
	if r.Intn(3) == 0 {
		// the option under which the compiler checks the length of lookahead phrases
		text = strings.Replace(text, "language g14(go);\n", fmt.Sprintf("language g14(go);\n\nmaxLookahead = %d\n", 1+r.Intn(4)), 1)
	}
	return text
}

func TestVerifC22Templated(t *testing.T) {
	ck := vNew("C22/templated-grammars", "seeded templated grammars (global, inline and lookahead flags, predicates, explicit and implicit arguments) decorated with lookahead predicates over templated nonterminals, named sets (also mutually recursive or self-complementing) used inside rules, references back to the input nonterminal with flag arguments, unknown flags, duplicate arguments and missing values; compiled with CheckOnly and fully", false,
		"Compile", "compiler.compileParser", "syntaxLoader.load", "syntaxLoader.resolveRef", "syntaxLoader.convertPart", "syntax.PropagateLookaheads", "syntax.Instantiate", "syntax.Expand", "syntax.ResolveSets", "syntax.checkOrDie")
	r := vNewRand(vSeed() + 2222)
	n := 4000
	if vTier() == "thorough" {
		n = 60000
	}
	trace := os.Getenv("VERIF_TRACE")
	ok, withErr := 0, 0
	for i := 0; i < n; i++ {
		g := g14Gen(r)
		text := g22Decorate(r, g)
		if trace != "" {
			os.WriteFile(trace, []byte(text), 0o644)
		}
		var err error
		pm := vRecover(func() { _, err = Compile(context.Background(), "t22.tm", text, Params{CheckOnly: i%2 == 0}) })
		ck.Case(true)
		if pm != "" {
			ck.Failf(text, "Compile panicked: %s", pm)
			continue
		}
		if err == nil {
			ok++
			continue
		}
		withErr++
		for _, e := range status.FromError(err) {
			if e.Origin.Filename == "" {
				continue // syntax errors of the tm parser carry no range here
			}
			if e.Origin.Offset < 0 || e.Origin.EndOffset > len(text) || e.Origin.Offset > e.Origin.EndOffset || e.Origin.Line < 1 {
				ck.Failf(text, "diagnostic %q has the range [%d,%d) line %d outside the text of %d bytes", e.Msg, e.Origin.Offset, e.Origin.EndOffset, e.Origin.Line, len(text))
				break
			}
		}
	}
	if trace != "" {
		os.Remove(trace)
	}
	ck.Samples = append(ck.Samples, fmt.Sprintf("%d grammars compiled without diagnostics, %d with diagnostics", ok, withErr))
	vWrite(t, []string{"no language oracle: only 'returns, and diagnostics lie inside the text'"}, ck)
}
