package ident

// Bounded executable contract for identifier production (C28, first half).

import (
	"fmt"
	"regexp"
	"strings"
	"testing"
	"unicode"
)

var (
	c28idRE     = regexp.MustCompile(`^[a-zA-Z_]([a-zA-Z_\-0-9]*[a-zA-Z_0-9])?$`)
	c28quotedRE = regexp.MustCompile(`^'([^\n\\']|\\.)*'$`)
)

// c28valid is an independent reading of "valid in all target languages".
func c28valid(id string) bool {
	if id == "" {
		return false
	}
	for i, c := range id {
		switch {
		case c == '_' || unicode.IsLetter(c):
		case unicode.IsDigit(c) && i > 0:
		default:
			return false
		}
	}
	return true
}

func c28style(id string, st Style) string {
	switch st {
	case UpperCase, UpperUnderscores:
		for _, c := range id {
			if unicode.IsLower(c) {
				return "contains a lower-case letter"
			}
		}
	case CamelCase:
		for _, c := range id {
			if c == '_' {
				continue
			}
			if unicode.IsLetter(c) && !unicode.IsUpper(c) {
				return "first letter is not upper-case"
			}
			break
		}
	case CamelLower:
		for _, c := range id {
			if c == '_' {
				continue
			}
			if unicode.IsLetter(c) && !unicode.IsLower(c) {
				return "first letter is not lower-case"
			}
			break
		}
	}
	return ""
}

func TestVerifC28(t *testing.T) {
	ck := vNew("C28/produce", "every name admitted by the tm lexer's ID syntax of <=4 characters over {a Z b 0 _ -} and every quoted terminal with <=3 content units over {a Z 0 _ - $ + = space \" é \\\\ \\' \\n(escaped)}, in all 4 styles", true, "Produce", "IsValid")
	kf := vNew("C28/produce-empty", "same names; only names without any ASCII letter or digit that become the empty identifier (known finding F8)", true, "Produce")
	styles := []Style{CamelCase, CamelLower, UpperCase, UpperUnderscores}
	var names []string
	var rec func(cur string, alpha []string, max int, accept func(string) bool)
	rec = func(cur string, alpha []string, max int, accept func(string) bool) {
		if accept(cur) {
			names = append(names, cur)
		}
		if max == 0 {
			return
		}
		for _, a := range alpha {
			rec(cur+a, alpha, max-1, accept)
		}
	}
	rec("", []string{"a", "Z", "b", "0", "_", "-"}, 4, func(s string) bool { return c28idRE.MatchString(s) })
	var quoted []string
	var qrec func(cur string, n int)
	units := []string{"a", "Z", "0", "_", "-", "$", "+", "=", " ", "\"", "é", `\\`, `\'`, `\n`, "."}
	qrec = func(cur string, n int) {
		q := "'" + cur + "'"
		if c28quotedRE.MatchString(q) {
			quoted = append(quoted, q)
		}
		if n == 0 {
			return
		}
		for _, u := range units {
			qrec(cur+u, n-1)
		}
	}
	qrec("", 3)
	names = append(names, quoted...)
	for _, name := range names {
		hasAlnum := strings.IndexFunc(name, func(r rune) bool { return r < 0x80 && (unicode.IsLetter(r) || unicode.IsDigit(r)) }) >= 0
		for _, st := range styles {
			ck.Case(true)
			var id string
			if p := vRecover(func() { id = Produce(name, st) }); p != "" {
				ck.Failf(fmt.Sprintf("%q style %d", name, st), "Produce panicked: %s", p)
				continue
			}
			if id == "" && !hasAlnum && (name == "''" || !strings.HasPrefix(name, "'")) {
				kf.Case(true)
				kf.Failf(fmt.Sprintf("%q style %d", name, st), "Produce(%q, %d) is the empty identifier (name without letters or digits)", name, st)
				continue
			}
			if !c28valid(id) {
				ck.Failf(fmt.Sprintf("%q style %d", name, st), "Produce(%q, %d) = %q is not a valid identifier", name, st, id)
				continue
			}
			if IsValid(id) != c28valid(id) {
				ck.Failf(id, "IsValid(%q) = %v", id, IsValid(id))
			}
			quotedUnderscore := strings.HasPrefix(name, "'") && strings.Contains(name, "_")
			if msg := c28style(id, st); msg != "" && !quotedUnderscore {
				ck.Failf(fmt.Sprintf("%q style %d", name, st), "Produce(%q, %d) = %q: %s", name, st, id, msg)
			}
		}
	}
	ck.Sample("a-b0")
	ck.Sample(`'\n'`)
	kf.Sample("_")
	// IsValid against the independent reading
	iv := vNew("C28/isvalid", "all strings of <=3 units over {a Z 0 _ - é ٣ space $}", true, "IsValid")
	var irec func(cur string, n int)
	irec = func(cur string, n int) {
		iv.Case(true)
		if IsValid(cur) != c28valid(cur) {
			iv.Failf(cur, "IsValid(%q) = %v, want %v", cur, IsValid(cur), c28valid(cur))
		}
		if n == 0 {
			return
		}
		for _, u := range []string{"a", "Z", "0", "_", "-", "é", "٣", " ", "$"} {
			irec(cur+u, n-1)
		}
	}
	irec("", 3)
	iv.Sample("_0é")
	vWrite(t, []string{"casing is not checked for quoted terminals that contain an underscore: Produce keeps such underscores and treats the following letter as a continuation"}, ck, kf, iv)
}
