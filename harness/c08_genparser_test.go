package gen

// C08 (bounded, on generated code): parsers GENERATED for grammars with lookahead predicate sets
// pick the alternative whose predicates hold.
//
// Each grammar has 2..3 predicates P_i ("token t_i is present in the statement") and a set of
// alternatives drawn as the leaves of a random decision tree over the predicates (so the
// conjunctions are mutually exclusive and exhaustive, with negated and positive literals, 2..5
// alternatives). The decision is taken either directly in applyRule() or, wrapped in another
// lookahead, in the generated lookaheadRule(); options cancellable, recursiveLookaheads, optimizeTables and
// minimizeDFA vary (minimizeDFA merges the final states of the lookahead inputs: the memo of lookahead() must
// not confuse two predicates evaluated at the same offset - defect F26, repaired).
// The real pipeline generates a parser package per grammar; one driver is built for all of them and
// run on every statement "x <letter> [t1] [t2] [t3] ;": the statement must be reported as Good
// exactly when its letter is the one of the alternative whose conjunction holds.

import (
	"context"
	"encoding/json"
	"fmt"
	"os"
	"os/exec"
	"path/filepath"
	"strings"
	"testing"
	"time"

	"github.com/inspirer/textmapper/status"
)

type g08Lit struct {
	pred int
	neg  bool
}

type g08Grammar struct {
	idx         int
	npred       int
	alts        [][]g08Lit // conjunction per alternative; alternative i belongs to letter i
	nested      bool
	cancellable bool
	recursive   bool
	optimize    bool // optimizeTables: the parser (and its lookahead() copy) decodes the compressed tables
	minimize    bool // minimizeDFA: bisimilar states of the automaton are merged before the tables are written
	text        string
}

type g08DirWriter struct{ dir string }

func (w g08DirWriter) Write(filename, content string) error {
	p := filepath.Join(w.dir, filename)
	if err := os.MkdirAll(filepath.Dir(p), 0o755); err != nil {
		return err
	}
	return os.WriteFile(p, []byte(content), 0o644)
}

var g08Letters = []string{"a", "b", "c", "d", "e"}
var g08PredTok = []string{"p", "q", "r"}

// g08Tree draws the leaves of a random decision tree (each leaf = the literals on its path).
func g08Tree(r *vRand, npred int, path []g08Lit, used map[int]bool, budget *int) [][]g08Lit {
	var free []int
	for p := 0; p < npred; p++ {
		if !used[p] {
			free = append(free, p)
		}
	}
	if len(free) == 0 || *budget <= 1 || (len(path) > 0 && r.Intn(3) == 0) {
		return [][]g08Lit{append([]g08Lit(nil), path...)}
	}
	p := free[r.Intn(len(free))]
	*budget--
	used[p] = true
	a := g08Tree(r, npred, append(path, g08Lit{p, false}), used, budget)
	b := g08Tree(r, npred, append(path, g08Lit{p, true}), used, budget)
	used[p] = false
	return append(a, b...)
}

func g08Gen(r *vRand, idx int) *g08Grammar {
	g := &g08Grammar{idx: idx, npred: 2 + r.Intn(2), nested: idx%2 == 0, cancellable: idx%4 < 2, recursive: idx%3 != 0, optimize: idx%5 < 2, minimize: idx%7 == 3}
	if g.nested {
		// lookaheads inside lookaheads are only evaluated by parsers generated with
		// recursiveLookaheads = true (the meaning of that option)
		g.recursive = true
	}
	budget := 5
	g.alts = g08Tree(r, g.npred, nil, map[int]bool{}, &budget)
	// shuffle the alternatives: the order of the cases decides which literal is tested first
	for i := len(g.alts) - 1; i > 0; i-- {
		j := r.Intn(i + 1)
		g.alts[i], g.alts[j] = g.alts[j], g.alts[i]
	}
	var sb strings.Builder
	fmt.Fprintf(&sb, "language p%d(go);\n\nlang = \"p%d\"\npackage = \"vmod/p%d\"\neventBased = true\ncancellable = %v\nrecursiveLookaheads = %v\noptimizeTables = %v\nminimizeDFA = %v\n\n:: lexer\n\nWhiteSpace: /[ \\t\\r\\n]/ (space)\n\n'x': /x/\n';': /;/\n", idx, idx, idx, g.cancellable, g.recursive, g.optimize, g.minimize)
	for _, l := range g08Letters[:len(g.alts)] {
		fmt.Fprintf(&sb, "'%s': /%s/\n", l, l)
	}
	for _, t := range g08PredTok[:g.npred] {
		fmt.Fprintf(&sb, "'%s': /%s/\n", t, t)
	}
	opt := ""
	for _, t := range g08PredTok[:g.npred] {
		opt += " '" + t + "'?"
	}
	sb.WriteString("\n:: parser\n\n%input File;\n\nFile -> File:\n    Stmt+ ;\n\n")
	var letters []string
	for _, l := range g08Letters[:len(g.alts)] {
		letters = append(letters, "'"+l+"'")
	}
	conj := func(c []g08Lit) string {
		var ps []string
		for _, l := range c {
			if l.neg {
				ps = append(ps, fmt.Sprintf("!P%d", l.pred))
			} else {
				ps = append(ps, fmt.Sprintf("P%d", l.pred))
			}
		}
		return strings.Join(ps, " & ")
	}
	if g.nested {
		fmt.Fprintf(&sb, "Stmt -> Stmt:\n    (?= Outer) 'x' Letter%s ';'    -> Good\n  | (?= !Outer) 'x' Letter%s ';'   -> Bad\n;\n\n", opt, opt)
		sb.WriteString("Outer: Inner ;\n\nInner:\n")
		for i, c := range g.alts {
			sep := "    "
			if i > 0 {
				sep = "  | "
			}
			fmt.Fprintf(&sb, "%s(?= %s) 'x' '%s'\n", sep, conj(c), g08Letters[i])
		}
		sb.WriteString(";\n\n")
	} else {
		// the decision is taken at the top level: one Good alternative per letter, the rest is Bad
		sb.WriteString("Stmt -> Stmt:\n    Decide\n;\n\nDecide:\n")
		for i, c := range g.alts {
			sep := "    "
			if i > 0 {
				sep = "  | "
			}
			fmt.Fprintf(&sb, "%s(?= %s) 'x' Tail%d\n", sep, conj(c), i)
		}
		sb.WriteString(";\n\n")
		for i := range g.alts {
			fmt.Fprintf(&sb, "Tail%d:\n    '%s'%s ';'  -> Good\n", i, g08Letters[i], opt)
			for j := range g.alts {
				if j != i {
					fmt.Fprintf(&sb, "  | '%s'%s ';'  -> Bad\n", g08Letters[j], opt)
				}
			}
			sb.WriteString(";\n\n")
		}
	}
	fmt.Fprintf(&sb, "Letter: %s ;\n\n", strings.Join(letters, " | "))
	// P_i holds iff its token is present (the optional tokens come in a fixed order)
	for p := 0; p < g.npred; p++ {
		fmt.Fprintf(&sb, "P%d: 'x' Letter", p)
		for q := 0; q < p; q++ {
			fmt.Fprintf(&sb, " '%s'?", g08PredTok[q])
		}
		fmt.Fprintf(&sb, " '%s' ;\n", g08PredTok[p])
	}
	g.text = sb.String()
	return g
}

const g08DriverHead = `package main

import (
	"context"
	"encoding/json"
	"fmt"
	"os"
%s
)

var _ = context.Background

var runners = map[int]func(string) string{}

func safe(f func(string) string, src string) (out string) {
	defer func() {
		if r := recover(); r != nil {
			out = fmt.Sprint("PANIC: ", r)
		}
	}()
	return f(src)
}

func main() {
	var in map[int][]string
	if err := json.NewDecoder(os.Stdin).Decode(&in); err != nil {
		fmt.Fprintln(os.Stderr, err)
		os.Exit(2)
	}
	out := map[int][]string{}
	for g, inputs := range in {
		for _, src := range inputs {
			out[g] = append(out[g], safe(runners[g], src))
		}
	}
	json.NewEncoder(os.Stdout).Encode(out)
}
`

const g08Runner = `
func init() {
	runners[%[1]d] = func(src string) string {
		var got []string
		var p p%[1]d.Parser
		p.Init(func(nt p%[1]d.NodeType, offset, endoffset int) {
			if nt == p%[1]d.Good || nt == p%[1]d.Bad {
				got = append(got, nt.String())
			}
		})
		var l p%[1]d.Lexer
		l.Init(src)
		if err := p.Parse(%[2]s&l); err != nil {
			return "ERROR: " + err.Error()
		}
		return fmt.Sprint(got)
	}
}
`

func TestVerifC08Generated(t *testing.T) {
	ck := vNew("C08/generated-parsers", "seeded grammars with 2..3 predicates and 2..5 mutually exclusive alternatives (leaves of a random decision tree, shuffled), decided in applyRule() or nested in lookaheadRule(), options cancellable x recursiveLookaheads x optimizeTables x minimizeDFA; every statement 'x <letter> [p] [q] [r] ;'", false,
		"GenerateFile", "go_parser.go.tmpl:applyRule", "go_parser.go.tmpl:lookaheadRule", "go_parser.go.tmpl:lookahead", "lalr.newLookaheadRule")
	base := os.Getenv("VERIF_TMP")
	if base == "" {
		base = os.TempDir()
	}
	dir, err := os.MkdirTemp(base, "c08mod")
	if err != nil {
		t.Fatal(err)
	}
	defer os.RemoveAll(dir)
	r := vNewRand(vSeed() + 808)
	ng := 16
	if vTier() == "thorough" {
		ng = 96
	}
	var gs []*g08Grammar
	rejected := map[string]int{}
	for i := 0; len(gs) < ng && i < ng*3; i++ {
		g := g08Gen(r, i)
		w := g08DirWriter{filepath.Join(dir, fmt.Sprintf("p%d", i))}
		w.Write(fmt.Sprintf("p%d.tm", i), g.text)
		var gerr error
		pmsg := vRecover(func() {
			_, gerr = GenerateFile(context.Background(), filepath.Join(w.dir, fmt.Sprintf("p%d.tm", i)), w, Options{})
		})
		if pmsg != "" {
			ck.Case(true)
			ck.Failf(g.text, "generation panicked: %s", pmsg)
			os.RemoveAll(w.dir)
			continue
		}
		if gerr != nil {
			ck.Case(false)
			for _, e := range status.FromError(gerr) {
				k := e.Msg
				if len(k) > 60 {
					k = k[:60]
				}
				rejected[k]++
				break
			}
			os.RemoveAll(w.dir)
			continue
		}
		gs = append(gs, g)
	}
	ck.Samples = append(ck.Samples, fmt.Sprintf("rejected by the compiler: %v", rejected))
	if len(gs) < ng/2 {
		ck.Failf(fmt.Sprint(rejected), "only %d of the drawn grammars compiled: the harness explores too little", len(gs))
		vWrite(t, nil, ck)
		return
	}
	var imports, runners strings.Builder
	for _, g := range gs {
		fmt.Fprintf(&imports, "\tp%[1]d \"vmod/p%[1]d\"\n", g.idx)
		ctx := ""
		if g.cancellable {
			ctx = "context.Background(), "
		}
		fmt.Fprintf(&runners, g08Runner, g.idx, ctx)
	}
	top := g08DirWriter{dir}
	top.Write("go.mod", "module vmod\n\ngo 1.20\n")
	top.Write("cmd/drv/main.go", fmt.Sprintf(g08DriverHead, imports.String())+runners.String())
	inputs := map[int][]string{}
	want := map[int][]string{}
	for _, g := range gs {
		for li := range g.alts {
			for mask := 0; mask < 1<<g.npred; mask++ {
				src := "x " + g08Letters[li]
				for p := 0; p < g.npred; p++ {
					if mask&(1<<p) != 0 {
						src += " " + g08PredTok[p]
					}
				}
				src += " ;"
				chosen := -1
				for ai, c := range g.alts {
					holds := true
					for _, l := range c {
						if (mask&(1<<l.pred) != 0) == l.neg {
							holds = false
						}
					}
					if holds {
						chosen = ai
					}
				}
				w := "[Bad]"
				if chosen == li {
					w = "[Good]"
				}
				inputs[g.idx] = append(inputs[g.idx], src)
				want[g.idx] = append(want[g.idx], w)
			}
		}
	}
	env := append(os.Environ(), "GOFLAGS=-mod=mod", "GOPROXY=off", "GOSUMDB=off", "GOTOOLCHAIN=local", "GOWORK=off")
	build := exec.Command("go", "build", "-o", filepath.Join(dir, "drv"), "./cmd/drv")
	build.Dir = dir
	build.Env = env
	if out, err := build.CombinedOutput(); err != nil {
		ck.Case(true)
		ck.Failf(nil, "the generated parsers do not build: %s", strings.TrimSpace(string(out)))
		vWrite(t, nil, ck)
		return
	}
	ctx, cancel := context.WithTimeout(context.Background(), 5*time.Minute)
	defer cancel()
	run := exec.CommandContext(ctx, filepath.Join(dir, "drv"))
	data, _ := json.Marshal(inputs)
	run.Stdin = strings.NewReader(string(data))
	run.Stderr = os.Stderr
	outData, err := run.Output()
	if err != nil {
		ck.Case(true)
		ck.Failf(nil, "the driver running the generated parsers failed or did not finish: %v", err)
		vWrite(t, nil, ck)
		return
	}
	var got map[int][]string
	if err := json.Unmarshal(outData, &got); err != nil {
		t.Fatal(err)
	}
	for gi, g := range gs {
		for k, src := range inputs[g.idx] {
			ck.Case(true)
			if got[g.idx][k] != want[g.idx][k] {
				ck.Failf(map[string]interface{}{"grammar": g.text, "input": src}, "generated parser (nested=%v cancellable=%v recursiveLookaheads=%v optimizeTables=%v minimizeDFA=%v, %d alternatives over %d predicates) reports %q as %s, the alternative whose predicates hold makes it %s", g.nested, g.cancellable, g.recursive, g.optimize, g.minimize, len(g.alts), g.npred, src, got[g.idx][k], want[g.idx][k])
				break
			}
		}
		if gi < 2 {
			ck.Sample(strings.ReplaceAll(g.text[strings.Index(g.text, "%input"):], "\n", " "))
		}
	}
	vWrite(t, []string{"predicates are 'token t_i is present'; alternatives are the leaves of a decision tree, hence mutually exclusive and exhaustive; the expected classification is computed from the conjunctions, not from the compiled decision list"}, ck)
}
