package tm

import "context"

func c20parse(src string) (evs []c20ev) {
	l := func(t NodeType, offset, endoffset int) { evs = append(evs, c20ev{int(t), offset, endoffset}) }
	var s TokenStream
	s.Init(src, l)
	var p Parser
	p.Init(func(err SyntaxError) bool { return true }, l)
	p.ParseFile(context.Background(), &s)
	return
}
