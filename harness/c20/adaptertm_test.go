package tm

import "context"

func c20parse(src string) (evs []c20ev) {
	l := func(t NodeType, offset, endoffset int) { evs = append(evs, c20ev{int(t), offset, endoffset}) }
	var s TokenStream
	s.Init(src, l)
	var p Parser
	p.Init(func(err SyntaxError) bool { return true }, l)
	p.ParseFile(context.Background(), &s)
	return
}

func c20parseAfter(prev, src string) (evs []c20ev) {
	on := false
	l := func(t NodeType, offset, endoffset int) {
		if on {
			evs = append(evs, c20ev{int(t), offset, endoffset})
		}
	}
	var s TokenStream
	var p Parser
	p.Init(func(err SyntaxError) bool { return true }, l)
	s.Init(prev, l)
	p.ParseFile(context.Background(), &s)
	on = true
	s.Init(src, l)
	p.ParseFile(context.Background(), &s)
	return
}
