package test

import "context"

func c20parse(src string) (evs []c20ev) {
	var l Lexer
	var p Parser
	l.Init(src)
	p.Init(func(t NodeType, flags NodeFlags, offset, endoffset int) { evs = append(evs, c20ev{int(t), offset, endoffset}) })
	p.ParseTest(context.Background(), &l)
	return
}
