package test

import "context"

func c20parse(src string) (evs []c20ev) {
	var l Lexer
	var p Parser
	l.Init(src)
	p.Init(func(t NodeType, flags NodeFlags, offset, endoffset int) { evs = append(evs, c20ev{int(t), offset, endoffset}) })
	p.ParseTest(context.Background(), &l)
	return
}

func c20parseAfter(prev, src string) (evs []c20ev) {
	var l Lexer
	var p Parser
	on := false
	p.Init(func(t NodeType, flags NodeFlags, offset, endoffset int) {
		if on {
			evs = append(evs, c20ev{int(t), offset, endoffset})
		}
	})
	l.Init(prev)
	p.ParseTest(context.Background(), &l)
	on = true
	l.Init(src)
	p.ParseTest(context.Background(), &l)
	return
}
