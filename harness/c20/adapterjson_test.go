package json

func c20parse(src string) (evs []c20ev) {
	var l Lexer
	var p Parser
	l.Init(src)
	p.Init(func(t NodeType, offset, endoffset int) { evs = append(evs, c20ev{int(t), offset, endoffset}) })
	p.Parse(&l)
	return
}
