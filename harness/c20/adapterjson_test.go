package json

func c20parse(src string) (evs []c20ev) {
	var l Lexer
	var p Parser
	l.Init(src)
	p.Init(func(t NodeType, offset, endoffset int) { evs = append(evs, c20ev{int(t), offset, endoffset}) })
	p.Parse(&l)
	return
}

// c20parseAfter: the SAME parser object parses prev first (events dropped), then src, without a new
// Init in between - the way the package's own benchmark reuses a parser.
func c20parseAfter(prev, src string) (evs []c20ev) {
	var l Lexer
	var p Parser
	on := false
	p.Init(func(t NodeType, offset, endoffset int) {
		if on {
			evs = append(evs, c20ev{int(t), offset, endoffset})
		}
	})
	l.Init(prev)
	p.Parse(&l)
	on = true
	l.Init(src)
	p.Parse(&l)
	return
}
