package rtc

// Closed facts about package-level tables, evaluated on the variable as the Go runtime
// initialised it (exhaustive: every bounded quantifier is run through). Used by govc for tables
// whose elements are not plain integers (e.g. []struct{lo, hi rune; val []uint8}).

import (
	"encoding/json"
	"os"
	"reflect"
	"testing"
)

type FactJob struct {
	Files []string `json:"files"`
	Facts []string `json:"facts"`
	Out   string   `json:"out"`
}

type FactResult struct {
	Fact string `json:"fact"`
	Ok   bool   `json:"ok"`
	Eval bool   `json:"evaluated"`
	Why  string `json:"why,omitempty"`
}

// TableFacts evaluates the facts of the job named by VERIF_FACTS_JOB; vars are addressable
// package-level variables by name, consts the package constants the facts mention.
func TableFacts(t *testing.T, vars map[string]reflect.Value, consts map[string]any) {
	jf := os.Getenv("VERIF_FACTS_JOB")
	if jf == "" {
		t.Skip("no VERIF_FACTS_JOB")
	}
	data, err := os.ReadFile(jf)
	if err != nil {
		t.Fatal(err)
	}
	var job FactJob
	if err := json.Unmarshal(data, &job); err != nil {
		t.Fatal(err)
	}
	rt := &runtime{pk: &Pkg{Consts: consts, Pure: map[string]reflect.Value{}}}
	for _, p := range job.Files {
		cf, err := ParseContractFile(p)
		if err != nil {
			t.Fatal(err)
		}
		rt.files = append(rt.files, cf)
	}
	var out []FactResult
	for _, f := range job.Facts {
		res := FactResult{Fact: f}
		x, err := ParseExpr(f)
		if err != nil {
			res.Why = err.Error()
			out = append(out, res)
			continue
		}
		e := &env{rt: rt, vars: map[string]any{}, bound: map[string]any{}}
		for n, v := range vars {
			e.vars[n] = norm(v)
		}
		v, why, ok := e.evalBool(x)
		res.Ok, res.Eval, res.Why = v && ok, ok, why
		out = append(out, res)
	}
	b, _ := json.MarshalIndent(out, "", " ")
	if err := os.WriteFile(job.Out, b, 0o644); err != nil {
		t.Fatal(err)
	}
}
