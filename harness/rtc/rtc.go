// Package rtc is the executable back end of the contract language: it evaluates the requires /
// ensures clauses of a function contract on concrete values (reflection over the real types of
// the package under test) and runs the REAL function under them.
//
// It is injected into the repository with `go test -overlay` (as package
// github.com/inspirer/textmapper/zz_verif_rtc; nothing is written into /repo) together with
// verbatim copies of the engine's contract parser (cexpr.go, cfile.go) and a generated in-package
// driver that hands over the function values. Two uses:
//
//   - replay: the entry state of a solver model (decoded by govc) is rebuilt and the function is
//     called on it; the outcome is "confirmed" when the precondition holds and the call panics or an
//     ensures clause evaluates to false;
//   - bounded search: when a failed obligation has no reproducible model, inputs are drawn by type
//     (small values, constants of the contract) and the same contract is executed on each, looking
//     for a real failing input. The bound (budget, sizes) is stated in the report.
package rtc

import (
	"encoding/json"
	"fmt"
	"math/rand"
	"os"
	"reflect"
	"sort"
	"strconv"
	"strings"
	"testing"
	"time"
	"unsafe"
)

// ---- interface with the generated driver ----

type Func struct {
	Fn      reflect.Value
	Params  []string // receiver first
	Results []string // "" for unnamed
}

type Pkg struct {
	Name   string
	Funcs  map[string]Func
	Consts map[string]any // int64, bool or string, by name or pkg.Name
	Pure   map[string]reflect.Value
}

// ---- job / report ----

type VJ struct {
	K   string         `json:"k"` // int bool str slice struct ptr array map nil
	I   string         `json:"i,omitempty"`
	B   bool           `json:"b,omitempty"`
	S   []byte         `json:"s,omitempty"`
	Arr string         `json:"arr,omitempty"` // slice: key of the backing array
	Off int            `json:"off,omitempty"`
	Len int            `json:"len,omitempty"`
	Cap int            `json:"cap,omitempty"`
	F   map[string]*VJ `json:"f,omitempty"`
	Ref string         `json:"ref,omitempty"` // ptr: key of the object ("" = nil)
	E   []*VJ          `json:"e,omitempty"`   // array elements
}

type Input struct {
	Obligation string           `json:"obligation"`
	Args       []*VJ            `json:"args"`
	Arrays     map[string][]*VJ `json:"arrays"`
	Objs       map[string]*VJ   `json:"objs"`
	Approx     []string         `json:"approx,omitempty"`
}

type Job struct {
	Func          string   `json:"func"`
	ContractFiles []string `json:"contract_files"`
	Inputs        []*Input `json:"inputs"`
	SearchMs      int      `json:"search_ms"`
	Seed          int64    `json:"seed"`
	MaxLen        int      `json:"max_len"`
	Report        string   `json:"report"`
	Trace         string   `json:"trace"`
}

type Outcome struct {
	Obligation string `json:"obligation,omitempty"`
	Source     string `json:"source"` // model | search
	Pre        string `json:"pre"`    // holds | fails: <clause> | undetermined: <why>
	Result     string `json:"result"` // ok | panic: ... | ensures-false: <clause> | timeout | not-run
	Confirmed  bool   `json:"confirmed"`
	Input      string `json:"input,omitempty"`
	Observed   string `json:"observed,omitempty"`
	Approx     []string `json:"approx,omitempty"`
}

type Report struct {
	Func      string     `json:"func"`
	Outcomes  []*Outcome `json:"outcomes"`
	Tried     int        `json:"search_tried"`
	PreOK     int        `json:"search_pre_ok"`
	SearchMs  int        `json:"search_ms"`
	Bound     string     `json:"search_bound"`
	Error     string     `json:"error,omitempty"`
	Undeterm  int        `json:"search_undetermined"`
	FirstUnd  string     `json:"first_undetermined,omitempty"`
}

// Main runs the job named by VERIF_RTC_JOB.
func Main(t *testing.T, pk *Pkg) {
	jf := os.Getenv("VERIF_RTC_JOB")
	if jf == "" {
		t.Skip("no VERIF_RTC_JOB")
	}
	data, err := os.ReadFile(jf)
	if err != nil {
		t.Fatal(err)
	}
	var jobs []*Job
	if err := json.Unmarshal(data, &jobs); err != nil {
		t.Fatal(err)
	}
	for _, job := range jobs {
		rep := runJob(pk, job)
		out, _ := json.MarshalIndent(rep, "", " ")
		if err := os.WriteFile(job.Report, out, 0o644); err != nil {
			t.Fatal(err)
		}
	}
}

func runJob(pk *Pkg, job *Job) (rep *Report) {
	rep = &Report{Func: job.Func}
	defer func() {
		if r := recover(); r != nil {
			rep.Error = fmt.Sprint(r)
		}
	}()
	f, ok := pk.Funcs[job.Func]
	if !ok {
		rep.Error = "driver has no function value for " + job.Func
		return
	}
	rt := &runtime{pk: pk, fn: f, job: job}
	for _, p := range job.ContractFiles {
		cf, err := ParseContractFile(p)
		if err != nil {
			rep.Error = err.Error()
			return
		}
		rt.files = append(rt.files, cf)
	}
	if len(rt.files) == 0 {
		rep.Error = "no contract file"
		return
	}
	rt.spec = rt.files[0].Funcs[job.Func]
	if rt.spec == nil {
		rep.Error = "no contract for " + job.Func + " in " + job.ContractFiles[0]
		return
	}
	ft := f.Fn.Type()
	for _, in := range job.Inputs {
		b := &builder{in: in, arrs: map[string]reflect.Value{}, objs: map[string]reflect.Value{}}
		oc := &Outcome{Obligation: in.Obligation, Source: "model", Approx: in.Approx}
		args, err := b.args(ft, in.Args)
		if err != nil {
			oc.Pre, oc.Result = "undetermined: "+err.Error(), "not-run"
			rep.Outcomes = append(rep.Outcomes, oc)
			continue
		}
		rt.runOne(args, oc)
		rep.Outcomes = append(rep.Outcomes, oc)
	}
	confirmed := false
	for _, oc := range rep.Outcomes {
		confirmed = confirmed || oc.Confirmed
	}
	if job.SearchMs > 0 && !confirmed {
		rt.search(rep)
	}
	return
}

// ---- running one input ----

type runtime struct {
	pk    *Pkg
	fn    Func
	job   *Job
	files []*ContractFile
	spec  *FuncSpec
}

type evalErr string

func fail(f string, a ...any) { panic(evalErr(fmt.Sprintf(f, a...))) }

func (rt *runtime) baseEnv(args []reflect.Value) *env {
	e := &env{rt: rt, vars: map[string]any{}}
	for i, n := range rt.fn.Params {
		if i < len(args) && n != "" && n != "_" {
			e.vars[n] = norm(args[i])
		}
	}
	return e
}

// evalBool evaluates a clause; ok=false means the clause could not be evaluated.
func (e *env) evalBool(x Expr) (v bool, why string, ok bool) {
	defer func() {
		if r := recover(); r != nil {
			if ee, is := r.(evalErr); is {
				why, ok = string(ee), false
				return
			}
			why, ok = fmt.Sprint(r), false
		}
	}()
	b, is := e.eval(x).(bool)
	if !is {
		return false, "not boolean", false
	}
	return b, "", true
}

func (rt *runtime) runOne(args []reflect.Value, oc *Outcome) {
	// keep addressable holders so that unexported fields can be read afterwards
	for i := range args {
		h := reflect.New(args[i].Type()).Elem()
		h.Set(args[i])
		args[i] = h
	}
	pre := rt.baseEnv(args)
	oc.Pre = "holds"
	for _, c := range rt.spec.Requires {
		v, why, ok := pre.evalBool(c.E)
		if !ok {
			oc.Pre, oc.Result = "undetermined: "+why+" in requires "+c.Text, "not-run"
			return
		}
		if !v {
			oc.Pre, oc.Result = "fails: "+c.Text, "not-run"
			return
		}
	}
	if rt.spec.Options["nilable-receiver"] == "" && len(args) > 0 && rt.fn.Fn.Type().NumIn() > 0 && len(rt.fn.Params) > 0 {
		// receivers are assumed non-nil by the verifier
	}
	oc.Input = rt.dumpArgs(args)
	if rt.job.Trace != "" {
		os.WriteFile(rt.job.Trace, []byte(rt.job.Func+" "+oc.Input), 0o644)
	}
	memo := map[memoKey]reflect.Value{}
	oldArgs := make([]reflect.Value, len(args))
	for i := range args {
		oldArgs[i] = reflect.New(args[i].Type()).Elem()
		oldArgs[i].Set(deepCopy(args[i], memo))
	}
	type callRes struct {
		res []reflect.Value
		pan any
	}
	ch := make(chan callRes, 1)
	go func() {
		var cr callRes
		defer func() {
			if r := recover(); r != nil {
				cr.pan = r
			}
			ch <- cr
		}()
		cr.res = rt.fn.Fn.Call(args)
	}()
	var cr callRes
	select {
	case cr = <-ch:
	case <-time.After(5 * time.Second):
		oc.Result, oc.Confirmed = "timeout: the call did not return within 5 s", true
		return
	}
	if cr.pan != nil {
		oc.Result, oc.Confirmed = "panic: "+fmt.Sprint(cr.pan), true
		return
	}
	post := rt.baseEnv(args)
	post.old = rt.baseEnv(oldArgs)
	var obs []string
	for i, r := range cr.res {
		h := reflect.New(r.Type()).Elem()
		h.Set(r)
		v := norm(h)
		if i < len(rt.fn.Results) && rt.fn.Results[i] != "" && rt.fn.Results[i] != "_" {
			post.vars[rt.fn.Results[i]] = v
		}
		post.vars[fmt.Sprintf("result%d", i)] = v
		if len(cr.res) == 1 {
			post.vars["result"] = v
		}
		obs = append(obs, dump(h, 0))
	}
	oc.Observed = "returned (" + strings.Join(obs, ", ") + "); arguments after the call: " + rt.dumpArgs(args)
	oc.Result = "ok"
	var und []string
	for _, c := range rt.spec.Ensures {
		for _, cj := range conjuncts(c.E) {
			v, why, ok := post.evalBool(cj)
			if !ok {
				und = append(und, ExprString(cj)+" ("+why+")")
				continue
			}
			if !v {
				oc.Result, oc.Confirmed = "ensures-false: "+ExprString(cj), true
				return
			}
		}
	}
	if len(und) > 0 {
		oc.Result = "ok (not evaluable: " + strings.Join(und, "; ") + ")"
	}
}

func (rt *runtime) dumpArgs(args []reflect.Value) string {
	var parts []string
	for i, a := range args {
		n := "arg" + strconv.Itoa(i)
		if i < len(rt.fn.Params) {
			n = rt.fn.Params[i]
		}
		parts = append(parts, n+" = "+dump(a, 0))
	}
	return strings.Join(parts, "; ")
}

// ---- values ----

type nilV struct{}

// rw clears the read-only flag of a value reached through an unexported field.
func rw(v reflect.Value) reflect.Value {
	if !v.IsValid() || v.CanInterface() {
		return v
	}
	if v.CanAddr() {
		return reflect.NewAt(v.Type(), unsafe.Pointer(v.UnsafeAddr())).Elem()
	}
	return v
}

// norm maps a reflect value to the interpreter's value domain.
func norm(v reflect.Value) any {
	if !v.IsValid() {
		return nilV{}
	}
	switch v.Kind() {
	case reflect.Int, reflect.Int8, reflect.Int16, reflect.Int32, reflect.Int64:
		return v.Int()
	case reflect.Uint, reflect.Uint8, reflect.Uint16, reflect.Uint32, reflect.Uint64, reflect.Uintptr:
		return int64(v.Uint())
	case reflect.Bool:
		return v.Bool()
	case reflect.String:
		return v.String()
	case reflect.Interface:
		if v.IsNil() {
			return rw(v)
		}
		return rw(v)
	}
	return rw(v)
}

type memoKey struct {
	p uintptr
	t reflect.Type
	n int
}

func deepCopy(v reflect.Value, memo map[memoKey]reflect.Value) reflect.Value {
	v = rw(v)
	switch v.Kind() {
	case reflect.Ptr:
		if v.IsNil() {
			return v
		}
		k := memoKey{v.Pointer(), v.Type(), 0}
		if c, ok := memo[k]; ok {
			return c
		}
		n := reflect.New(v.Type().Elem())
		memo[k] = n
		n.Elem().Set(deepCopy(v.Elem(), memo))
		return n
	case reflect.Slice:
		if v.IsNil() {
			return v
		}
		k := memoKey{v.Pointer(), v.Type(), v.Cap()}
		if c, ok := memo[k]; ok {
			return c.Slice3(0, v.Len(), v.Cap())
		}
		full := v.Slice3(0, v.Cap(), v.Cap())
		n := reflect.MakeSlice(v.Type(), v.Cap(), v.Cap())
		memo[k] = n
		for i := 0; i < full.Len(); i++ {
			n.Index(i).Set(deepCopy(full.Index(i), memo))
		}
		return n.Slice3(0, v.Len(), v.Cap())
	case reflect.Array:
		n := reflect.New(v.Type()).Elem()
		for i := 0; i < v.Len(); i++ {
			n.Index(i).Set(deepCopy(v.Index(i), memo))
		}
		return n
	case reflect.Struct:
		n := reflect.New(v.Type()).Elem()
		for i := 0; i < v.NumField(); i++ {
			src := v.Field(i)
			if !src.CanInterface() {
				if !src.CanAddr() {
					// make the source addressable first
					h := reflect.New(v.Type()).Elem()
					h.Set(v)
					src = h.Field(i)
				}
				src = rw(src)
			}
			rw(n.Field(i)).Set(deepCopy(src, memo))
		}
		return n
	case reflect.Map:
		if v.IsNil() {
			return v
		}
		k := memoKey{v.Pointer(), v.Type(), 0}
		if c, ok := memo[k]; ok {
			return c
		}
		n := reflect.MakeMapWithSize(v.Type(), v.Len())
		memo[k] = n
		it := v.MapRange()
		for it.Next() {
			kv, vv := it.Key(), it.Value()
			hk := reflect.New(kv.Type()).Elem()
			hk.Set(kv)
			hv := reflect.New(vv.Type()).Elem()
			hv.Set(vv)
			n.SetMapIndex(deepCopy(hk, memo), deepCopy(hv, memo))
		}
		return n
	case reflect.Interface:
		if v.IsNil() {
			return v
		}
		el := v.Elem()
		h := reflect.New(el.Type()).Elem()
		h.Set(el)
		c := deepCopy(h, memo)
		n := reflect.New(v.Type()).Elem()
		n.Set(c)
		return n
	}
	return v
}

func dump(v reflect.Value, depth int) string {
	v = rw(v)
	if !v.IsValid() {
		return "nil"
	}
	if depth > 6 {
		return "…"
	}
	switch v.Kind() {
	case reflect.Int, reflect.Int8, reflect.Int16, reflect.Int32, reflect.Int64:
		return strconv.FormatInt(v.Int(), 10)
	case reflect.Uint, reflect.Uint8, reflect.Uint16, reflect.Uint32, reflect.Uint64, reflect.Uintptr:
		return strconv.FormatUint(v.Uint(), 10)
	case reflect.Bool:
		return strconv.FormatBool(v.Bool())
	case reflect.String:
		return strconv.Quote(v.String())
	case reflect.Ptr:
		if v.IsNil() {
			return "nil"
		}
		return "&" + dump(v.Elem(), depth+1)
	case reflect.Slice:
		if v.IsNil() {
			return "nil"
		}
		var parts []string
		for i := 0; i < v.Len() && i < 40; i++ {
			parts = append(parts, dump(v.Index(i), depth+1))
		}
		s := "[" + strings.Join(parts, " ") + "]"
		if v.Cap() > v.Len() {
			s += fmt.Sprintf("(cap %d)", v.Cap())
		}
		return s
	case reflect.Array:
		var parts []string
		for i := 0; i < v.Len() && i < 40; i++ {
			parts = append(parts, dump(v.Index(i), depth+1))
		}
		return "[" + strings.Join(parts, " ") + "]"
	case reflect.Struct:
		var parts []string
		if !v.CanAddr() {
			h := reflect.New(v.Type()).Elem()
			h.Set(v)
			v = h
		}
		for i := 0; i < v.NumField(); i++ {
			f := v.Field(i)
			if isZero(rw(f)) {
				continue
			}
			parts = append(parts, v.Type().Field(i).Name+":"+dump(f, depth+1))
		}
		return v.Type().Name() + "{" + strings.Join(parts, " ") + "}"
	case reflect.Map:
		if v.IsNil() {
			return "nil"
		}
		var parts []string
		it := v.MapRange()
		for it.Next() {
			parts = append(parts, dump(it.Key(), depth+1)+":"+dump(it.Value(), depth+1))
		}
		sort.Strings(parts)
		return "map{" + strings.Join(parts, " ") + "}"
	case reflect.Interface:
		if v.IsNil() {
			return "nil"
		}
		return dump(v.Elem(), depth+1)
	case reflect.Func:
		if v.IsNil() {
			return "nil"
		}
		return "func"
	}
	return fmt.Sprintf("<%s>", v.Kind())
}

func isZero(v reflect.Value) bool {
	defer func() { recover() }()
	return v.IsZero()
}

// ---- building values from a decoded model ----

type builder struct {
	in   *Input
	arrs map[string]reflect.Value
	objs map[string]reflect.Value
}

func (b *builder) args(ft reflect.Type, vjs []*VJ) (out []reflect.Value, err error) {
	defer func() {
		if r := recover(); r != nil {
			err = fmt.Errorf("cannot build the model's input: %v", r)
		}
	}()
	if len(vjs) != ft.NumIn() {
		return nil, fmt.Errorf("model has %d arguments, function takes %d", len(vjs), ft.NumIn())
	}
	for i := 0; i < ft.NumIn(); i++ {
		out = append(out, b.build(ft.In(i), vjs[i]))
	}
	return out, nil
}

func (b *builder) build(t reflect.Type, vj *VJ) reflect.Value {
	v := reflect.New(t).Elem()
	if vj == nil || vj.K == "nil" {
		return v
	}
	switch t.Kind() {
	case reflect.Int, reflect.Int8, reflect.Int16, reflect.Int32, reflect.Int64:
		n, err := strconv.ParseInt(vj.I, 10, 64)
		if err != nil {
			panic("integer out of range: " + vj.I)
		}
		if v.OverflowInt(n) {
			panic("integer " + vj.I + " does not fit " + t.String())
		}
		v.SetInt(n)
	case reflect.Uint, reflect.Uint8, reflect.Uint16, reflect.Uint32, reflect.Uint64, reflect.Uintptr:
		n, err := strconv.ParseUint(vj.I, 10, 64)
		if err != nil {
			panic("unsigned integer out of range: " + vj.I)
		}
		if v.OverflowUint(n) {
			panic("integer " + vj.I + " does not fit " + t.String())
		}
		v.SetUint(n)
	case reflect.Bool:
		v.SetBool(vj.B)
	case reflect.String:
		v.SetString(string(vj.S))
	case reflect.Slice:
		if vj.Arr == "" {
			if vj.K == "slice" && vj.Cap == 0 {
				return v // nil
			}
			return v
		}
		arr, ok := b.arrs[vj.Arr]
		if !ok {
			elems := b.in.Arrays[vj.Arr]
			arr = reflect.MakeSlice(t, len(elems), len(elems))
			b.arrs[vj.Arr] = arr
			for i, e := range elems {
				arr.Index(i).Set(b.build(t.Elem(), e))
			}
		}
		if vj.Off+vj.Cap > arr.Len() || vj.Len > vj.Cap {
			panic("slice outside its backing array")
		}
		v.Set(arr.Slice3(vj.Off, vj.Off+vj.Len, vj.Off+vj.Cap))
	case reflect.Array:
		for i := 0; i < t.Len() && i < len(vj.E); i++ {
			v.Index(i).Set(b.build(t.Elem(), vj.E[i]))
		}
	case reflect.Struct:
		for i := 0; i < t.NumField(); i++ {
			f := t.Field(i)
			if fv, ok := vj.F[f.Name]; ok {
				rw(v.Field(i)).Set(b.build(f.Type, fv))
			}
		}
	case reflect.Ptr:
		if vj.Ref == "" {
			return v
		}
		if o, ok := b.objs[vj.Ref]; ok {
			return o
		}
		o := reflect.New(t.Elem())
		b.objs[vj.Ref] = o
		if ov, ok := b.in.Objs[vj.Ref]; ok {
			o.Elem().Set(b.build(t.Elem(), ov))
		}
		return o
	case reflect.Map:
		if vj.K == "map" && vj.B {
			v.Set(reflect.MakeMap(t))
		}
	}
	return v
}

// ---- the interpreter ----

type env struct {
	rt    *runtime
	vars  map[string]any
	bound map[string]any // quantifier and let variables (stay visible inside old())
	old   *env
	depth int
}

func (e *env) child() *env {
	n := *e
	n.vars = map[string]any{}
	for k, v := range e.vars {
		n.vars[k] = v
	}
	n.bound = map[string]any{}
	for k, v := range e.bound {
		n.bound[k] = v
	}
	return &n
}

func (e *env) findPred(name string) *PredSpec {
	for _, f := range e.rt.files {
		if p, ok := f.Preds[name]; ok {
			return p
		}
	}
	return nil
}

func asInt(v any, what Expr) int64 {
	switch x := v.(type) {
	case int64:
		return x
	case reflect.Value:
		switch x.Kind() {
		case reflect.Int, reflect.Int8, reflect.Int16, reflect.Int32, reflect.Int64:
			return x.Int()
		case reflect.Uint, reflect.Uint8, reflect.Uint16, reflect.Uint32, reflect.Uint64:
			return int64(x.Uint())
		}
	}
	fail("%s is not an integer", ExprString(what))
	return 0
}

func asBool(v any, what Expr) bool {
	if b, ok := v.(bool); ok {
		return b
	}
	fail("%s is not boolean", ExprString(what))
	return false
}

func deref(v any) any {
	if rv, ok := v.(reflect.Value); ok && rv.Kind() == reflect.Ptr {
		if rv.IsNil() {
			fail("nil pointer dereference in a contract expression")
		}
		return norm(rv.Elem())
	}
	return v
}

func (e *env) eval(x Expr) any {
	switch x := x.(type) {
	case *IntLit:
		n, err := strconv.ParseInt(x.Val, 10, 64)
		if err != nil {
			u, err2 := strconv.ParseUint(x.Val, 10, 64)
			if err2 != nil {
				fail("integer literal %s too large", x.Val)
			}
			return int64(u)
		}
		return n
	case *BoolLit:
		return x.Val
	case *StrLit:
		return x.Val
	case *Ident:
		if v, ok := e.bound[x.Name]; ok {
			return v
		}
		if v, ok := e.vars[x.Name]; ok {
			return v
		}
		if x.Name == "nil" {
			return nilV{}
		}
		if c, ok := e.rt.pk.Consts[x.Name]; ok {
			return normConst(c)
		}
		fail("unknown identifier %q", x.Name)
	case *OldE:
		if e.old == nil {
			fail("old() is not available here")
		}
		o := e.old.child()
		o.old = e.old
		for k, v := range e.bound {
			o.bound[k] = v
		}
		o.depth = e.depth
		return o.eval(x.X)
	case *Unary:
		switch x.Op {
		case "!":
			return !asBool(e.eval(x.X), x.X)
		case "-":
			return -asInt(e.eval(x.X), x.X)
		case "^":
			return ^asInt(e.eval(x.X), x.X)
		case "*":
			v := e.eval(x.X)
			rv, ok := v.(reflect.Value)
			if !ok || rv.Kind() != reflect.Ptr {
				fail("* applied to a non-pointer %s", ExprString(x.X))
			}
			return deref(v)
		}
	case *Binary:
		return e.binary(x)
	case *CondE:
		if asBool(e.eval(x.C), x.C) {
			return e.eval(x.A)
		}
		return e.eval(x.B)
	case *LetE:
		n := e.child()
		n.bound[x.Var] = e.eval(x.Val)
		return n.eval(x.Body)
	case *IndexE:
		base := deref(e.eval(x.X))
		switch b := base.(type) {
		case string:
			i := asInt(e.eval(x.I), x.I)
			if i < 0 || i >= int64(len(b)) {
				fail("index %d out of range in %s", i, ExprString(x))
			}
			return int64(b[i])
		case reflect.Value:
			switch b.Kind() {
			case reflect.Slice, reflect.Array:
				i := asInt(e.eval(x.I), x.I)
				if i < 0 || i >= int64(b.Len()) {
					fail("index %d out of range (len %d) in %s", i, b.Len(), ExprString(x))
				}
				return norm(b.Index(int(i)))
			case reflect.Map:
				k := e.toType(e.eval(x.I), b.Type().Key())
				if b.IsNil() {
					return norm(reflect.New(b.Type().Elem()).Elem())
				}
				r := b.MapIndex(k)
				if !r.IsValid() {
					return norm(reflect.New(b.Type().Elem()).Elem())
				}
				h := reflect.New(r.Type()).Elem()
				h.Set(r)
				return norm(h)
			}
		}
		fail("cannot index %s", ExprString(x.X))
	case *SliceE:
		base := deref(e.eval(x.X))
		lo := int64(0)
		if x.Lo != nil {
			lo = asInt(e.eval(x.Lo), x.Lo)
		}
		switch b := base.(type) {
		case string:
			hi := int64(len(b))
			if x.Hi != nil {
				hi = asInt(e.eval(x.Hi), x.Hi)
			}
			if lo < 0 || hi < lo || hi > int64(len(b)) {
				fail("slice bounds out of range in %s", ExprString(x))
			}
			return b[lo:hi]
		case reflect.Value:
			if b.Kind() == reflect.Slice {
				hi := int64(b.Len())
				if x.Hi != nil {
					hi = asInt(e.eval(x.Hi), x.Hi)
				}
				if lo < 0 || hi < lo || hi > int64(b.Cap()) {
					fail("slice bounds out of range in %s", ExprString(x))
				}
				if b.IsNil() {
					return b
				}
				return b.Slice3(int(lo), int(hi), b.Cap())
			}
		}
		fail("cannot slice %s", ExprString(x.X))
	case *FieldE:
		if id, ok := x.X.(*Ident); ok {
			_, isVar := e.vars[id.Name]
			_, isBound := e.bound[id.Name]
			if !isVar && !isBound {
				if c, ok := e.rt.pk.Consts[id.Name+"."+x.Name]; ok {
					return normConst(c)
				}
			}
		}
		base := deref(e.eval(x.X))
		rv, ok := base.(reflect.Value)
		if !ok || rv.Kind() != reflect.Struct {
			fail("field access .%s on a non-struct (%s)", x.Name, ExprString(x.X))
		}
		if !rv.CanAddr() {
			h := reflect.New(rv.Type()).Elem()
			h.Set(rv)
			rv = h
		}
		f := rv.FieldByName(x.Name)
		if !f.IsValid() {
			fail("no field %s in %s", x.Name, rv.Type())
		}
		return norm(f)
	case *CallE:
		return e.call(x)
	case *Quant:
		lo, hi := asInt(e.eval(x.Lo), x.Lo), asInt(e.eval(x.Hi), x.Hi)
		if hi-lo > 3_000_000 {
			fail("quantifier range too large to execute (%d..%d)", lo, hi)
		}
		n := e.child()
		for i := lo; i < hi; i++ {
			n.bound[x.Var] = i
			b := asBool(n.eval(x.Body), x.Body)
			if x.Forall && !b {
				return false
			}
			if !x.Forall && b {
				return true
			}
		}
		return x.Forall
	}
	fail("cannot evaluate %s", ExprString(x))
	return nil
}

func normConst(c any) any {
	switch v := c.(type) {
	case int64, bool, string:
		return v
	case int:
		return int64(v)
	}
	return norm(reflect.ValueOf(c))
}

func (e *env) toType(v any, t reflect.Type) reflect.Value {
	out := reflect.New(t).Elem()
	switch x := v.(type) {
	case int64:
		switch t.Kind() {
		case reflect.Int, reflect.Int8, reflect.Int16, reflect.Int32, reflect.Int64:
			out.SetInt(x)
			return out
		case reflect.Uint, reflect.Uint8, reflect.Uint16, reflect.Uint32, reflect.Uint64, reflect.Uintptr:
			out.SetUint(uint64(x))
			return out
		}
	case bool:
		if t.Kind() == reflect.Bool {
			out.SetBool(x)
			return out
		}
	case string:
		if t.Kind() == reflect.String {
			out.SetString(x)
			return out
		}
	case reflect.Value:
		if x.Type().AssignableTo(t) {
			out.Set(x)
			return out
		}
		if x.Type().ConvertibleTo(t) {
			out.Set(x.Convert(t))
			return out
		}
	case nilV:
		return out
	}
	fail("cannot convert a contract value to %s", t)
	return out
}

func equalVals(a, b any) bool {
	if _, ok := a.(nilV); ok {
		a, b = b, a
	}
	if _, ok := b.(nilV); ok {
		switch x := a.(type) {
		case nilV:
			return true
		case reflect.Value:
			switch x.Kind() {
			case reflect.Ptr, reflect.Slice, reflect.Map, reflect.Interface, reflect.Func, reflect.Chan:
				return x.IsNil()
			}
		}
		fail("nil comparison on a non-nilable value")
	}
	switch x := a.(type) {
	case int64:
		if y, ok := b.(int64); ok {
			return x == y
		}
	case bool:
		if y, ok := b.(bool); ok {
			return x == y
		}
	case string:
		if y, ok := b.(string); ok {
			return x == y
		}
	case reflect.Value:
		y, ok := b.(reflect.Value)
		if !ok {
			break
		}
		switch x.Kind() {
		case reflect.Ptr, reflect.Map, reflect.Func, reflect.Chan:
			return x.Pointer() == y.Pointer()
		case reflect.Slice:
			return x.Pointer() == y.Pointer() && x.Len() == y.Len() && x.Cap() == y.Cap()
		case reflect.Struct:
			if x.Type() != y.Type() {
				return false
			}
			ax, ay := addressable(x), addressable(y)
			for i := 0; i < ax.NumField(); i++ {
				if !equalVals(norm(ax.Field(i)), norm(ay.Field(i))) {
					return false
				}
			}
			return true
		case reflect.Array:
			for i := 0; i < x.Len(); i++ {
				if !equalVals(norm(x.Index(i)), norm(y.Index(i))) {
					return false
				}
			}
			return true
		case reflect.Interface:
			if x.IsNil() || y.IsNil() {
				return x.IsNil() == y.IsNil()
			}
			return equalVals(norm(addressable(x.Elem())), norm(addressable(y.Elem())))
		}
	}
	fail("cannot compare these values")
	return false
}

func addressable(v reflect.Value) reflect.Value {
	if v.CanAddr() {
		return v
	}
	h := reflect.New(v.Type()).Elem()
	h.Set(v)
	return h
}

func (e *env) binary(x *Binary) any {
	switch x.Op {
	case "&&":
		return asBool(e.eval(x.X), x.X) && asBool(e.eval(x.Y), x.Y)
	case "||":
		return asBool(e.eval(x.X), x.X) || asBool(e.eval(x.Y), x.Y)
	case "==>":
		return !asBool(e.eval(x.X), x.X) || asBool(e.eval(x.Y), x.Y)
	case "<==>":
		return asBool(e.eval(x.X), x.X) == asBool(e.eval(x.Y), x.Y)
	case "==":
		return equalVals(e.eval(x.X), e.eval(x.Y))
	case "!=":
		return !equalVals(e.eval(x.X), e.eval(x.Y))
	}
	av, bv := e.eval(x.X), e.eval(x.Y)
	if as, ok := av.(string); ok {
		if bs, ok := bv.(string); ok {
			switch x.Op {
			case "<":
				return as < bs
			case "<=":
				return as <= bs
			case ">":
				return as > bs
			case ">=":
				return as >= bs
			case "+":
				return as + bs
			}
		}
	}
	a, b := asInt(av, x.X), asInt(bv, x.Y)
	switch x.Op {
	case "<":
		return a < b
	case "<=":
		return a <= b
	case ">":
		return a > b
	case ">=":
		return a >= b
	case "+":
		return a + b
	case "-":
		return a - b
	case "*":
		return a * b
	case "/":
		if b == 0 {
			fail("division by zero in %s", ExprString(x))
		}
		return a / b
	case "%":
		if b == 0 {
			fail("division by zero in %s", ExprString(x))
		}
		return a % b
	case "<<":
		if b < 0 || b > 63 {
			return int64(0)
		}
		return a << uint(b)
	case ">>":
		if b < 0 {
			fail("negative shift")
		}
		if b > 63 {
			b = 63
		}
		return a >> uint(b)
	case "&":
		return a & b
	case "|":
		return a | b
	case "^":
		return a ^ b
	case "&^":
		return a &^ b
	}
	fail("operator %s not supported", x.Op)
	return nil
}

func sliceOf(v any, what Expr) reflect.Value {
	v = deref(v)
	rv, ok := v.(reflect.Value)
	if !ok || rv.Kind() != reflect.Slice {
		fail("%s is not a slice", ExprString(what))
	}
	return rv
}

func (e *env) call(x *CallE) any {
	switch x.Fun {
	case "len", "cap":
		v := deref(e.eval(x.Args[0]))
		switch s := v.(type) {
		case string:
			return int64(len(s))
		case reflect.Value:
			switch s.Kind() {
			case reflect.Slice:
				if x.Fun == "cap" {
					return int64(s.Cap())
				}
				return int64(s.Len())
			case reflect.Array, reflect.Map:
				return int64(s.Len())
			}
		}
		fail("len/cap of %s", ExprString(x.Args[0]))
	case "min", "max":
		a, b := asInt(e.eval(x.Args[0]), x.Args[0]), asInt(e.eval(x.Args[1]), x.Args[1])
		if (x.Fun == "min") == (a < b) {
			return a
		}
		return b
	case "has":
		m := deref(e.eval(x.Args[0]))
		rv, ok := m.(reflect.Value)
		if !ok || rv.Kind() != reflect.Map {
			fail("has() needs a map")
		}
		if rv.IsNil() {
			return false
		}
		return rv.MapIndex(e.toType(e.eval(x.Args[1]), rv.Type().Key())).IsValid()
	case "newlines":
		s, ok := deref(e.eval(x.Args[0])).(string)
		if !ok || len(x.Args) != 3 {
			fail("newlines(s, a, b) needs a string and two positions")
		}
		a, b := asInt(e.eval(x.Args[1]), x.Args[1]), asInt(e.eval(x.Args[2]), x.Args[2])
		if a < 0 || b > int64(len(s)) {
			fail("newlines: range outside the string")
		}
		n := int64(0)
		for i := a; i < b; i++ {
			if s[i] == 10 {
				n++
			}
		}
		return n
	case "umod":
		a, b := asInt(e.eval(x.Args[0]), x.Args[0]), asInt(e.eval(x.Args[1]), x.Args[1])
		if b <= 0 {
			fail("umod by a non-positive number")
		}
		return ((a % b) + b) % b
	case "pure0", "pure1":
		lit, ok := x.Args[0].(*StrLit)
		if !ok {
			fail("%s needs a string literal", x.Fun)
		}
		fn, ok := e.rt.pk.Pure[lit.Val]
		if !ok {
			fail("no function value for %s in the driver", lit.Val)
		}
		ft := fn.Type()
		if ft.NumIn() != len(x.Args)-1 {
			fail("%s: wrong number of arguments", lit.Val)
		}
		var args []reflect.Value
		for i, a := range x.Args[1:] {
			args = append(args, e.toType(e.eval(a), ft.In(i)))
		}
		res := fn.Call(args)
		i := 0
		if x.Fun == "pure1" {
			i = 1
		}
		return norm(addressable(res[i]))
	case "disjoint", "otherarray": // otherarray (different backing arrays) is approximated by non-overlap at run time
		a, b := sliceOf(e.eval(x.Args[0]), x.Args[0]), sliceOf(e.eval(x.Args[1]), x.Args[1])
		if a.Cap() == 0 || b.Cap() == 0 {
			return true
		}
		sz := a.Type().Elem().Size()
		if sz == 0 {
			return true
		}
		a0, b0 := a.Pointer(), b.Pointer()
		a1, b1 := a0+uintptr(a.Cap())*sz, b0+uintptr(b.Cap())*b.Type().Elem().Size()
		return a1 <= b0 || b1 <= a0
	case "fresh":
		return true // not decidable at run time: taken as true (only weakens the executable check)
	case "sameslice":
		if s1, ok := e.eval(x.Args[0]).(string); ok {
			// strings: the same substring of the same text
			s2, _ := e.eval(x.Args[1]).(string)
			return len(s1) == len(s2) && (len(s1) == 0 || unsafe.StringData(s1) == unsafe.StringData(s2))
		}
		a, b := sliceOf(e.eval(x.Args[0]), x.Args[0]), sliceOf(e.eval(x.Args[1]), x.Args[1])
		return a.Len() == b.Len() && (a.Cap() == 0 && b.Cap() == 0 || a.Pointer() == b.Pointer())
	case "within":
		a, b := sliceOf(e.eval(x.Args[0]), x.Args[0]), sliceOf(e.eval(x.Args[1]), x.Args[1])
		if a.Len() == 0 {
			return true // an empty sub-slice: its position is not observable
		}
		if b.Len() == 0 {
			return false
		}
		es := a.Type().Elem().Size()
		if es == 0 {
			return true
		}
		d := (a.Pointer() - b.Pointer())
		return a.Pointer() >= b.Pointer() && d%es == 0 && int(d/es)+a.Len() <= b.Len()
	case "suffixof":
		a, b := sliceOf(e.eval(x.Args[0]), x.Args[0]), sliceOf(e.eval(x.Args[1]), x.Args[1])
		if a.Len() > b.Len() {
			return false
		}
		if a.Len() == 0 {
			return true // an empty suffix: the position is not observable
		}
		return b.Slice(b.Len()-a.Len(), b.Len()).Pointer() == a.Pointer()
	case "samearray":
		a, b := sliceOf(e.eval(x.Args[0]), x.Args[0]), sliceOf(e.eval(x.Args[1]), x.Args[1])
		return a.Cap() == 0 && b.Cap() == 0 || a.Pointer() == b.Pointer()
	case "int", "int64", "Sym":
		return asInt(e.eval(x.Args[0]), x.Args[0])
	case "int32", "rune":
		return int64(int32(asInt(e.eval(x.Args[0]), x.Args[0])))
	case "int16":
		return int64(int16(asInt(e.eval(x.Args[0]), x.Args[0])))
	case "int8":
		return int64(int8(asInt(e.eval(x.Args[0]), x.Args[0])))
	case "uint8", "byte":
		return int64(uint8(asInt(e.eval(x.Args[0]), x.Args[0])))
	case "uint16":
		return int64(uint16(asInt(e.eval(x.Args[0]), x.Args[0])))
	case "uint32":
		return int64(uint32(asInt(e.eval(x.Args[0]), x.Args[0])))
	case "uint", "uint64":
		return asInt(e.eval(x.Args[0]), x.Args[0])
	}
	ps := e.findPred(x.Fun)
	if ps == nil {
		fail("unknown spec function %q", x.Fun)
	}
	if len(ps.Params) != len(x.Args) {
		fail("%s expects %d arguments", x.Fun, len(ps.Params))
	}
	if e.depth > 20000 {
		fail("spec function recursion too deep at %s", x.Fun)
	}
	n := &env{rt: e.rt, vars: map[string]any{}, bound: map[string]any{}, old: e.old, depth: e.depth + 1}
	for i, p := range ps.Params {
		n.vars[p.Name] = e.eval(x.Args[i])
	}
	return n.eval(ps.Body)
}

// ---- bounded search for a failing input ----

type gen struct {
	r      *rand.Rand
	ints   []int64
	bytes  []byte
	maxLen int
}

func (rt *runtime) harvest() (ints []int64, bs []byte) {
	seen := map[int64]bool{}
	add := func(n int64) {
		for _, d := range []int64{-1, 0, 1} {
			if !seen[n+d] {
				seen[n+d] = true
				ints = append(ints, n+d)
			}
		}
	}
	for _, n := range []int64{0, 1, 2, 3, 5} {
		add(n)
	}
	var walk func(x Expr)
	walk = func(x Expr) {
		switch x := x.(type) {
		case *IntLit:
			if n, err := strconv.ParseInt(x.Val, 10, 64); err == nil {
				add(n)
				if n >= 0 && n < 256 {
					bs = append(bs, byte(n))
				}
			}
		case *Unary:
			walk(x.X)
		case *Binary:
			walk(x.X)
			walk(x.Y)
		case *IndexE:
			walk(x.X)
			walk(x.I)
		case *SliceE:
			walk(x.X)
			if x.Lo != nil {
				walk(x.Lo)
			}
			if x.Hi != nil {
				walk(x.Hi)
			}
		case *FieldE:
			walk(x.X)
		case *CallE:
			for _, a := range x.Args {
				walk(a)
			}
			if ps := (&env{rt: rt}).findPred(x.Fun); ps != nil && !seenPred[x.Fun] {
				seenPred[x.Fun] = true
				walk(ps.Body)
			}
		case *Quant:
			walk(x.Lo)
			walk(x.Hi)
			walk(x.Body)
		case *OldE:
			walk(x.X)
		case *CondE:
			walk(x.C)
			walk(x.A)
			walk(x.B)
		case *LetE:
			walk(x.Val)
			walk(x.Body)
		}
	}
	seenPred = map[string]bool{}
	for _, c := range rt.spec.Requires {
		walk(c.E)
	}
	for _, c := range rt.spec.Ensures {
		walk(c.E)
	}
	for _, c := range rt.pk.Consts {
		if n, ok := c.(int64); ok && len(ints) < 60 {
			add(n)
		}
	}
	bs = append(bs, 'a', 'b', '0', '\n', '\\', 0x80, 0xc3, 0xa9, 0xff, ' ', '_')
	return
}

var seenPred map[string]bool

func (g *gen) intFor(t reflect.Type) int64 {
	if g.r.Intn(12) == 0 {
		// extremes of the type
		bits := t.Bits()
		switch t.Kind() {
		case reflect.Int, reflect.Int8, reflect.Int16, reflect.Int32, reflect.Int64:
			if g.r.Intn(2) == 0 {
				return -1 << (bits - 1)
			}
			return 1<<(bits-1) - 1
		default:
			if bits == 64 {
				return -1
			}
			return 1<<bits - 1
		}
	}
	if g.r.Intn(4) == 0 {
		return int64(g.r.Intn(9)) - 1
	}
	return g.ints[g.r.Intn(len(g.ints))]
}

func (g *gen) value(t reflect.Type, depth int, top bool) reflect.Value {
	v := reflect.New(t).Elem()
	switch t.Kind() {
	case reflect.Int, reflect.Int8, reflect.Int16, reflect.Int32, reflect.Int64:
		n := g.intFor(t)
		if v.OverflowInt(n) {
			n = int64(g.r.Intn(5))
		}
		v.SetInt(n)
	case reflect.Uint, reflect.Uint8, reflect.Uint16, reflect.Uint32, reflect.Uint64, reflect.Uintptr:
		n := g.intFor(t)
		if n < 0 && g.r.Intn(3) != 0 {
			n = -n
		}
		u := uint64(n)
		if v.OverflowUint(u) {
			u = uint64(g.r.Intn(5))
		}
		v.SetUint(u)
	case reflect.Bool:
		v.SetBool(g.r.Intn(2) == 0)
	case reflect.String:
		n := g.r.Intn(g.maxLen + 1)
		b := make([]byte, n)
		for i := range b {
			b[i] = g.bytes[g.r.Intn(len(g.bytes))]
		}
		v.SetString(string(b))
	case reflect.Slice:
		if depth > 4 || g.r.Intn(10) == 0 {
			return v
		}
		n := g.r.Intn(g.maxLen + 1)
		extra := 0
		if g.r.Intn(3) == 0 {
			extra = g.r.Intn(3)
		}
		s := reflect.MakeSlice(t, n, n+extra)
		for i := 0; i < n; i++ {
			s.Index(i).Set(g.value(t.Elem(), depth+1, false))
		}
		switch t.Elem().Kind() {
		case reflect.Int, reflect.Int8, reflect.Int16, reflect.Int32, reflect.Int64:
			switch g.r.Intn(3) {
			case 0: // sorted, possibly with duplicates
				sort.Slice(s.Interface(), func(i, j int) bool { return s.Index(i).Int() < s.Index(j).Int() })
			case 1: // strictly increasing
				sort.Slice(s.Interface(), func(i, j int) bool { return s.Index(i).Int() < s.Index(j).Int() })
				for i := 1; i < n; i++ {
					if s.Index(i).Int() <= s.Index(i-1).Int() {
						nv := s.Index(i-1).Int() + 1 + int64(g.r.Intn(2))
						if !s.Index(i).OverflowInt(nv) {
							s.Index(i).SetInt(nv)
						}
					}
				}
			}
		}
		v.Set(s)
	case reflect.Array:
		for i := 0; i < t.Len(); i++ {
			v.Index(i).Set(g.value(t.Elem(), depth+1, false))
		}
	case reflect.Struct:
		for i := 0; i < t.NumField(); i++ {
			rw(v.Field(i)).Set(g.value(t.Field(i).Type, depth+1, false))
		}
	case reflect.Ptr:
		if depth > 4 || (!top && g.r.Intn(8) == 0) {
			return v
		}
		p := reflect.New(t.Elem())
		p.Elem().Set(g.value(t.Elem(), depth+1, false))
		return p
	case reflect.Map:
		if g.r.Intn(4) == 0 || depth > 4 {
			return v
		}
		m := reflect.MakeMap(t)
		for i, n := 0, g.r.Intn(g.maxLen+1); i < n; i++ {
			m.SetMapIndex(g.value(t.Key(), depth+1, false), g.value(t.Elem(), depth+1, false))
		}
		v.Set(m)
	}
	return v
}

func (rt *runtime) search(rep *Report) {
	ints, bs := rt.harvest()
	maxLen := rt.job.MaxLen
	if maxLen <= 0 {
		maxLen = 4
	}
	g := &gen{r: rand.New(rand.NewSource(rt.job.Seed)), ints: ints, bytes: bs, maxLen: maxLen}
	ft := rt.fn.Fn.Type()
	t0 := time.Now()
	budget := time.Duration(rt.job.SearchMs) * time.Millisecond
	rep.Bound = fmt.Sprintf("random inputs by type for %d ms (seed %d): integers from the contract's constants +-1 and small values, slices/strings/maps up to length %d, pointer depth <= 4; not exhaustive", rt.job.SearchMs, rt.job.Seed, maxLen)
	for time.Since(t0) < budget {
		args := make([]reflect.Value, ft.NumIn())
		func() {
			defer func() {
				if r := recover(); r != nil {
					args = nil
				}
			}()
			for i := range args {
				args[i] = g.value(ft.In(i), 0, true)
			}
		}()
		if args == nil {
			continue
		}
		rep.Tried++
		oc := &Outcome{Source: "search"}
		rt.runOne(args, oc)
		if strings.HasPrefix(oc.Pre, "undetermined") {
			rep.Undeterm++
			if rep.FirstUnd == "" {
				rep.FirstUnd = oc.Pre
			}
		}
		if oc.Pre == "holds" {
			rep.PreOK++
		}
		if oc.Confirmed {
			rep.Outcomes = append(rep.Outcomes, oc)
			break
		}
	}
	rep.SearchMs = int(time.Since(t0).Milliseconds())
}

// ---- evaluating a predicate of a contract file on concrete values (used by bounded harnesses to
// check that callers establish the preconditions the deductive contracts assume) ----

type PredEval struct {
	rt *runtime
}

// NewPredEval parses the given contract files (the first one is searched first).
func NewPredEval(consts map[string]any, files ...string) (*PredEval, error) {
	rt := &runtime{pk: &Pkg{Consts: consts, Pure: map[string]reflect.Value{}}}
	for _, p := range files {
		cf, err := ParseContractFile(p)
		if err != nil {
			return nil, err
		}
		rt.files = append(rt.files, cf)
	}
	return &PredEval{rt}, nil
}

// Eval evaluates pred(args...) ; ok=false with a reason when it cannot be evaluated.
func (pe *PredEval) Eval(pred string, args ...any) (v bool, why string, ok bool) {
	e := &env{rt: pe.rt, vars: map[string]any{}, bound: map[string]any{}}
	ps := e.findPred(pred)
	if ps == nil {
		return false, "unknown predicate " + pred, false
	}
	if len(ps.Params) != len(args) {
		return false, "wrong number of arguments for " + pred, false
	}
	for i, p := range ps.Params {
		h := reflect.New(reflect.TypeOf(args[i])).Elem()
		h.Set(reflect.ValueOf(args[i]))
		e.vars[p.Name] = norm(h)
	}
	return e.evalBool(ps.Body)
}
