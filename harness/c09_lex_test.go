package lex

// Bounded executable contracts for the lexer construction pipeline (C09) and for the denotation
// of patterns (C10): tables built by lex.Compile are compared with the specified longest-match /
// priority semantics computed from the pattern syntax trees.

import (
	"fmt"
	"strings"
	"testing"
	"unicode"
	"unicode/utf8"

	"github.com/inspirer/textmapper/status"
	rtc "github.com/inspirer/textmapper/zz_verif_rtc"
)

type c09node string

func (n c09node) SourceRange() status.SourceRange { return status.SourceRange{Filename: string(n)} }

type c09resolver map[string]*Pattern

func (r c09resolver) Resolve(name string) *Pattern { return r[name] }

func c09count(q, t int) int {
	if vTier() == "thorough" {
		return t
	}
	return q
}

func c09compile(rules []lgRule, m lgMode, backtracking bool, named map[string]*lgNode) (*Tables, error, string) {
	var in []*Rule
	res := c09resolver{}
	opts := CharsetOptions{Fold: m.fold, ScanBytes: m.bytes}
	for name, nd := range named {
		re, err := ParseRegexp(nd.lgRender(), opts)
		if err != nil {
			return nil, err, ""
		}
		res[name] = &Pattern{Name: name, RE: re, Text: nd.lgRender(), Origin: c09node(name)}
	}
	for i, ru := range rules {
		text := ru.pattern()
		re, err := ParseRegexp(text, opts)
		if err != nil {
			return nil, fmt.Errorf("pattern /%s/: %v", text, err), ""
		}
		in = append(in, &Rule{
			Pattern:         &Pattern{Name: fmt.Sprintf("rule%d", i), RE: re, Text: text, Origin: c09node("p")},
			Resolver:        res,
			StartConditions: ru.scs,
			Precedence:      ru.prec,
			Action:          ru.act,
			Origin:          c09node(fmt.Sprintf("rule%d", i)),
		})
	}
	var tb *Tables
	var err error
	pmsg := vRecover(func() { tb, err = Compile(in, m.bytes, backtracking) })
	return tb, err, pmsg
}

func c09desc(rules []lgRule, m lgMode) string {
	var sb strings.Builder
	fmt.Fprintf(&sb, "fold=%v bytes=%v:", m.fold, m.bytes)
	for _, r := range rules {
		fmt.Fprintf(&sb, " /%s/->%d(prec %d, sc %v)", r.pattern(), r.act, r.prec, r.scs)
	}
	return sb.String()
}

// c09checkScans compares Tables.Scan with the specified result on every probe text.
func c09checkScans(ck *vCheck, desc string, tb *Tables, rules []lgRule, nsc int, m lgMode, universe []rune, maxText int) {
	for sc := 0; sc < nsc && sc < len(tb.StateMap); sc++ {
		for _, text := range lgTexts(universe, maxText) {
			wantSize, wantAct := lgScan(rules, sc, text, m, universe)
			// in rune mode the invalid symbol is scanned in two spellings: 0xff and a stray continuation byte
			invs := []byte{0xff}
			if !m.bytes && lgHas(text, utf8.RuneError) {
				invs = append(invs, 0x80)
			}
			for _, inv := range invs {
			src, offs := lgEncodeInv(text, m, inv)
			var size, act int
			if p := vRecover(func() { size, act = tb.Scan(sc, src) }); p != "" {
				ck.Failf(desc, "Scan(%d, %q) panicked: %s", sc, src, p)
				return
			}
			if wantSize > 0 {
				if size != offs[wantSize] || act != wantAct {
					ck.Failf(desc, "Scan(%d, %q) = (%d, action %d), specified longest match is %d bytes with action %d", sc, src, size, act, offs[wantSize], wantAct)
					return
				}
				continue
			}
			if len(text) == 0 {
				// an {eoi} rule may legitimately match the empty text; the property speaks of non-empty prefixes
				emptyEoi := false
				for _, ru := range rules {
					emptyEoi = emptyEoi || ru.eoi
				}
				if emptyEoi {
					continue
				}
			}
			// no rule matches a non-empty prefix: invalid token over the longest viable prefix
			viable := 0
			for k := 1; k <= len(text); k++ {
				for _, ru := range rules {
					active := false
					for _, s := range ru.scs {
						active = active || s == sc
					}
					if active && ru.node.lgLive(text[:k], 0, m, universe) {
						viable = k
					}
					// a complete match of an {eoi} rule can still be extended by the end of input
					if active && ru.eoi && ru.node.lgEnds(text[:k], map[int]bool{0: true}, m, universe)[k] {
						viable = k
					}
				}
				if viable != k {
					break
				}
			}
			if act != 0 || size != offs[viable] {
				ck.Failf(desc, "Scan(%d, %q) = (%d, action %d), want an invalid token (action 0) spanning the longest viable prefix of %d bytes", sc, src, size, act, offs[viable])
				return
			}
			}
		}
	}
}

// c09precondition evaluates the predicate the deductive contract of Tables.Scan assumes (wfTables,
// text taken from the contract file itself) on tables built by Compile.
func c09precondition(pre *vCheck, pe *rtc.PredEval, desc string, tb *Tables) {
	pre.Case(true)
	v, why, ok := pe.Eval("wfTables", tb)
	if !ok {
		pre.Failf(desc, "wfTables could not be evaluated: %s", why)
	} else if !v {
		pre.Failf(desc, "Compile returned tables that violate wfTables (the precondition of Tables.Scan): NumSymbols=%d SymbolMap=%v StateMap=%v Dfa=%v Backtrack=%v", tb.NumSymbols, tb.SymbolMap, tb.StateMap, tb.Dfa, tb.Backtrack)
	}
	v, why, ok = pe.Eval("mapSorted", tb)
	if !ok {
		pre.Failf(desc, "mapSorted could not be evaluated: %s", why)
	} else if !v {
		pre.Failf(desc, "Compile returned a symbol map that violates mapSorted (the precondition of Tables.SymbolArr): %v", tb.SymbolMap)
	}
}

func TestVerifC09(t *testing.T) {
	pe, perr := rtc.NewPredEval(nil, "zz_verif_contracts.go")
	if perr != nil {
		t.Fatal(perr)
	}
	pre := vNew("C09/scan-precondition", "every table built in the other C09 checks: the predicates wfTables and mapSorted of lex/zz_verif_contracts.go (the assumed preconditions of the deductive contracts of Tables.Scan and Tables.SymbolArr) are evaluated on it", false, "Compile")
	ck := vNew("C09/longest-match", "seeded rule sets of 1..4 rules (pattern trees of depth <=2: literals, classes incl. negated/subtracted, \\d \\w \\s ., ? * + {n} {n,} {n,m}, alternation, groups; 1..2 start conditions; precedences), modes {runes, bytes} x {fold, no fold}; all texts of <=3 symbols (<=4 thorough) over an 11..12 symbol probe alphabet incl. multi-byte runes and invalid UTF-8", false,
		"Compile", "compiler.addPattern", "compiler.compile", "compiler.serialize", "compressCharsets", "generator.addState", "generator.generate", "Tables.Scan")
	r := vNewRand(vSeed() + 31)
	n := c09count(700, 20000)
	maxText := c09count(3, 4)
	for i := 0; i < n; i++ {
		// fold with bytes (i%4 == 1) and fold with runes (i%8 == 6)
		m := lgMode{fold: i%4 == 1 || i%8 == 6, bytes: i%2 == 1}
		universe := lgAlphabet(m)
		if m.fold && m.bytes {
			// k and K: the orbit of k passes through a non-ASCII member (U+212A) before it reaches K; in
			// byte mode that member is skipped, not the rest of the orbit (seeded change C09-r15m2)
			universe = append(universe, 'k', 'K')
		}
		nr := 1 + r.Intn(4)
		nsc := 1 + r.Intn(2)
		var rules []lgRule
		for k := 0; k < nr; k++ {
			ru := lgRule{node: lgRandNode(r, 2, m, universe), prec: r.Intn(3), act: 2 + k}
			for sc := 0; sc < nsc; sc++ {
				if sc == 0 && k == 0 || r.Intn(2) == 0 {
					ru.scs = append(ru.scs, sc)
				}
			}
			if len(ru.scs) == 0 {
				ru.scs = []int{r.Intn(nsc)}
			}
			rules = append(rules, ru)
		}
		desc := c09desc(rules, m)
		tb, err, pmsg := c09compile(rules, m, true, nil)
		if pmsg != "" {
			ck.Case(true)
			ck.Failf(desc, "Compile panicked: %s", pmsg)
			continue
		}
		if err != nil {
			// identical rules / empty matches are legitimately rejected
			ck.Case(false)
			continue
		}
		ck.Case(true)
		if i < 3 {
			ck.Sample(desc)
		}
		c09precondition(pre, pe, desc, tb)
		c09checkScans(ck, desc, tb, rules, nsc, m, universe, maxText)
	}
	// rules ending in {eoi} and rules using named sub-patterns
	en := vNew("C09/eoi-and-named", "seeded rule sets of 1..3 rules where rules end in {eoi} and/or start with a named sub-pattern {n0} (pattern trees of depth <=1 for the parts), modes {runes, bytes} x {fold, no fold}; all texts of <=3 probe symbols; {eoi} is specified as consuming the end-of-input symbol", false,
		"Compile", "compiler.addPattern", "compiler.serialize", "Tables.Scan")
	n2 := c09count(400, 10000)
	for i := 0; i < n2; i++ {
		m := lgMode{fold: i%4 == 1, bytes: i%2 == 1}
		universe := lgAlphabet(m)
		nr := 1 + r.Intn(3)
		def := lgRandNode(r, 1, m, universe)
		named := map[string]*lgNode{"n0": def}
		var rules []lgRule
		for k := 0; k < nr; k++ {
			ru := lgRule{prec: r.Intn(2), act: 2 + k, scs: []int{0}, eoi: r.Intn(2) == 0}
			rest := lgRandNode(r, 1, m, universe)
			if r.Intn(2) == 0 {
				ru.node = &lgNode{kind: lgCat, sub: []*lgNode{def, rest}}
				rt := rest.lgRender()
				if rest.kind == lgAlt {
					rt = "(" + rt + ")"
				}
				ru.text = "{n0}" + rt
			} else {
				ru.node = rest
			}
			rules = append(rules, ru)
		}
		desc := c09desc(rules, m) + " n0=/" + def.lgRender() + "/"
		tb, err, pmsg := c09compile(rules, m, true, named)
		if pmsg != "" {
			en.Case(true)
			en.Failf(desc, "Compile panicked: %s", pmsg)
			continue
		}
		if err != nil {
			en.Case(false)
			continue
		}
		en.Case(true)
		if i < 3 {
			en.Sample(desc)
		}
		c09precondition(pre, pe, desc, tb)
		c09checkScans(en, desc, tb, rules, 1, m, universe, 3)
	}
	vWrite(t, []string{"pattern meaning is computed from generated syntax trees (never from the pattern text); symbol sets are restricted to the probe alphabet", "rules using {eoi} and named sub-patterns are exercised by C09/eoi-and-named"}, ck, en, pre)
}

// TestVerifC10 checks the denotation of single patterns and the rejection of malformed ones.
func TestVerifC10(t *testing.T) {
	den := vNew("C10/denotation", "seeded patterns (trees of depth <=3 with randomly chosen equivalent spellings of every rune and class), 4 modes, all texts of <=3 probe symbols: a one-rule lexer accepts exactly the denoted strings", false,
		"ParseRegexp", "parser.parse", "parser.parseClass", "parser.parseEscape", "parser.parseQuantifier", "newCharset", "charset.invert", "charset.subtract", "charset.fold", "appendRange")
	r := vNewRand(vSeed() + 37)
	n := c09count(1500, 40000)
	for i := 0; i < n; i++ {
		m := lgMode{fold: i%4 >= 2, bytes: i%2 == 1}
		universe := lgAlphabet(m)
		node := lgRandNode(r, 3, m, universe)
		rules := []lgRule{{node: node, act: 2, scs: []int{0}}}
		desc := c09desc(rules, m)
		tb, err, pmsg := c09compile(rules, m, true, nil)
		if pmsg != "" {
			den.Case(true)
			den.Failf(desc, "panic: %s", pmsg)
			continue
		}
		if err != nil {
			if strings.Contains(err.Error(), "broken regexp") {
				den.Case(true)
				den.Failf(desc, "well-formed pattern rejected: %v", err)
			} else {
				den.Case(false)
			}
			continue
		}
		den.Case(true)
		if i < 3 {
			den.Sample(desc)
		}
		for _, text := range lgTexts(universe, 3) {
			ends := node.lgEnds(text, map[int]bool{0: true}, m, universe)
			src, offs := lgEncode(text, m)
			size, act := tb.Scan(0, src)
			want := 0
			for p := range ends {
				if p > want {
					want = p
				}
			}
			if want > 0 && (act != 2 || size != offs[want]) || want == 0 && act != 0 {
				den.Failf(desc, "text %q: lexer result (%d, action %d), the pattern denotes a longest prefix of %d bytes", src, size, act, offs[want])
				break
			}
		}
	}
	// classes over all code points: membership of every rune against an independent reading
	cls := vNew("C10/classes-all-code-points", "seeded character classes (ranges, negation, subtraction, \\d \\w \\s, \\p{Lu} \\p{L} \\p{Nd} \\P{..}, a leading literal dash, single-character escapes, case folding) and every class escape standing alone outside brackets in every mode, membership checked for every code point 0..0x10FFFF (runes) or 0..255 (bytes)", false,
		"parser.parseClass", "newCharset", "charset.invert", "charset.subtract", "charset.fold", "appendNamedSet")
	type atom struct {
		text string
		in   func(c rune) bool
	}
	atoms := []atom{
		{`a-f`, func(c rune) bool { return c >= 'a' && c <= 'f' }},
		{`x`, func(c rune) bool { return c == 'x' }},
		{`\d`, func(c rune) bool { return c >= '0' && c <= '9' }},
		{`\w`, func(c rune) bool { return c >= '0' && c <= '9' || c >= 'a' && c <= 'z' || c >= 'A' && c <= 'Z' || c == '_' }},
		{`\s`, func(c rune) bool { return strings.ContainsRune("\t\n\v\f\r ", c) && c != 0 }},
		{`\x41-\x5a`, func(c rune) bool { return c >= 'A' && c <= 'Z' }},
		{`à-ÿ`, func(c rune) bool { return c >= 0xe0 && c <= 0xff }},
		{`\x{10}-\x{1f}`, func(c rune) bool { return c >= 0x10 && c <= 0x1f }},
		{`\000-\010`, func(c rune) bool { return c >= 0 && c <= 8 }},
		{`k`, func(c rune) bool { return c == 'k' }},
		{`s`, func(c rune) bool { return c == 's' }},
		// single-character escapes (after a leading literal dash: seeded change C10-r13m1)
		{`\n`, func(c rune) bool { return c == '\n' }},
		{`\.`, func(c rune) bool { return c == '.' }},
		{`\101`, func(c rune) bool { return c == 'A' }},
	}
	uni := []atom{
		{`\p{Lu}`, func(c rune) bool { return unicode.Is(unicode.Lu, c) }},
		{`\p{L}`, func(c rune) bool { return unicode.Is(unicode.L, c) }},
		{`\p{Nd}`, func(c rune) bool { return unicode.Is(unicode.Nd, c) }},
		{`\P{L}`, func(c rune) bool { return !unicode.Is(unicode.L, c) }},
		// the documented negation inside the braces: \p{^X} is the complement, \P{^X} is X again
		// (seeded change C10-r10m2 made ^ set the negation instead of toggling it)
		{`\p{^Nd}`, func(c rune) bool { return !unicode.Is(unicode.Nd, c) }},
		{`\P{^Lu}`, func(c rune) bool { return unicode.Is(unicode.Lu, c) }},
		{`\P{^Greek}`, func(c rune) bool { return unicode.Is(unicode.Greek, c) }},
		{`\p{Greek}`, func(c rune) bool { return unicode.Is(unicode.Greek, c) }},
		{`\x{400}-\x{4ff}`, func(c rune) bool { return c >= 0x400 && c <= 0x4ff }},
		{`\U00010000-\U0001ffff`, func(c rune) bool { return c >= 0x10000 && c <= 0x1ffff }},
	}
	nc := c09count(250, 5000)
	// after the seeded classes: every escape that can stand alone, outside brackets, in every mode
	type directedClass struct {
		a atom
		m lgMode
	}
	var directed []directedClass
	// Case folding of a standalone escape is only checked where its meaning is not in question: a
	// positive \p{X} is the fold closure of X (what [\p{X}] denotes as well). For \d \w \s and for
	// the complemented forms the standalone and the bracketed spelling differ on the unchanged tree
	// ((?i)\w does not contain U+017F, (?i)[\w] does; (?i)\P{L} is the complement of the closure,
	// (?i)[\P{L}] the closure of the complement) and the documentation does not say which is meant:
	// those are checked without folding only.
	for _, fold := range []bool{false, true} {
		for _, a := range atoms[2:5] {
			if !fold {
				directed = append(directed, directedClass{a, lgMode{}}, directedClass{a, lgMode{bytes: true}})
			}
		}
		for _, a := range uni {
			positive := a.text[1] == 'p' && !strings.Contains(a.text, "^")
			if (a.text[1] == 'p' || a.text[1] == 'P') && (positive || !fold) {
				directed = append(directed, directedClass{a, lgMode{fold: fold}})
			}
		}
	}
	for i := 0; i < nc+len(directed); i++ {
		m := lgMode{fold: i%3 == 0, bytes: i%2 == 1}
		if i >= nc {
			m = directed[i-nc].m
		}
		pool := atoms
		if !m.bytes {
			pool = append(append([]atom(nil), atoms...), uni...)
		}
		var parts []atom
		for k := 0; k < 1+r.Intn(3); k++ {
			parts = append(parts, pool[r.Intn(len(pool))])
		}
		neg := r.Intn(3) == 0
		var sub *atom
		if r.Intn(3) == 0 {
			a := pool[r.Intn(len(pool))]
			sub = &a
		}
		if i >= nc {
			parts, neg, sub = []atom{directed[i-nc].a}, false, nil
		}
		if last := parts[len(parts)-1].text; sub != nil && (len(last) == 1 || last == `\n` || last == `\.` || last == `\101`) {
			// "k-[x]" would read as the range from k to '[': keep a range in front of a subtraction
			parts = append(parts, atoms[0])
		}
		// a literal dash right after the opening bracket (or the ^) in a quarter of the classes
		dashFirst := r.Intn(4) == 0 && i < nc
		if t := parts[0].text; dashFirst && len(t) >= 2 && t[0] == '\\' && strings.ContainsRune("pPdws", rune(t[1])) {
			dashFirst = false // "-\d" inside a class subtracts \d, like "-[0-9]"
		}
		var sb strings.Builder
		sb.WriteString("[")
		if neg {
			sb.WriteString("^")
		}
		if dashFirst {
			sb.WriteString("-")
		}
		for _, p := range parts {
			sb.WriteString(p.text)
		}
		if sub != nil {
			sb.WriteString("-[" + sub.text + "]")
		}
		sb.WriteString("]")
		pat := sb.String()
		if dashFirst {
			parts = append(parts, atom{"-", func(c rune) bool { return c == '-' }})
		}
		// \p{..}, \P{..}, \d, \w, \s also stand alone, outside brackets: a separate path in the parser
		// (seeded change C10-r13m2 broke the case folding of a standalone \p{Script} only)
		if t := parts[0].text; len(parts) == 1 && sub == nil && !neg && !dashFirst && len(t) >= 2 && t[0] == '\\' && strings.ContainsRune("pPdws", rune(t[1])) && (!m.fold || t[1] == 'p' && !strings.Contains(t, "^")) && (i >= nc || r.Intn(2) == 0) {
			pat = t
		}
		desc := fmt.Sprintf("fold=%v bytes=%v /%s/", m.fold, m.bytes, pat)
		var re *Regexp
		var err error
		if p := vRecover(func() { re, err = ParseRegexp(pat, CharsetOptions{Fold: m.fold, ScanBytes: m.bytes}) }); p != "" {
			cls.Case(true)
			cls.Failf(desc, "ParseRegexp panicked: %s", p)
			continue
		}
		if err != nil {
			cls.Case(true)
			cls.Failf(desc, "well-formed class rejected: %v", err)
			continue
		}
		cls.Case(true)
		if i < 3 {
			cls.Sample(desc)
		}
		if re.op != opCharClass {
			cls.Failf(desc, "a class parsed into operator %d", re.op)
			continue
		}
		base := func(c rune) bool {
			in := false
			for _, p := range parts {
				in = in || p.in(c)
			}
			if sub != nil && sub.in(c) {
				in = false
			}
			return in
		}
		max := m.maxRune()
		member := func(c rune) bool {
			in := base(c)
			if m.fold && !in {
				for f := unicode.SimpleFold(c); f != c; f = unicode.SimpleFold(f) {
					if base(f) && (!m.bytes || c < 0x80) {
						in = true
					}
				}
			}
			return in != neg
		}
		cs := re.charset
		k := 0
		for c := rune(0); c <= max; c++ {
			for k < len(cs) && cs[k+1] < c {
				k += 2
			}
			got := k < len(cs) && cs[k] <= c && c <= cs[k+1]
			if got != member(c) {
				cls.Failf(desc, "code point U+%04X: in parsed set = %v, denoted = %v (set %v)", c, got, member(c), cs.String())
				break
			}
		}
		// bracket classes go through newCharset, which normalizes; a standalone escape keeps its table
		// as written (\s lists its six runes one by one), which denotes the same set
		for j := 0; pat[0] == '[' && j+3 < len(cs); j += 2 {
			if cs[j] > cs[j+1] || cs[j+1]+1 >= cs[j+2] {
				cls.Failf(desc, "parsed set is not a sorted list of non-adjacent ranges: %v", []rune(cs))
				break
			}
		}
	}
	// malformed patterns: rejected with an error located inside the pattern
	mal := vNew("C10/malformed", "all strings of <=4 characters (<=5 thorough) over { a - [ ] ^ \\ x u { } ( ) ? | 1 Z , } in 4 modes: no panic; errors carry 0 <= Offset <= EndOffset <= len; a fixed list of malformed patterns must be rejected", false,
		"ParseRegexp", "parser.error", "parser.next", "hexval", "octval")
	alpha := []string{"a", "-", "[", "]", "^", `\`, "x", "u", "{", "}", "(", ")", "?", "|", "1", "Z", ","}
	maxL := c09count(4, 5)
	var gen func(cur string, l int)
	gen = func(cur string, l int) {
		for _, m := range []CharsetOptions{{}, {Fold: true}, {ScanBytes: true}} {
			mal.Case(true)
			var err error
			if p := vRecover(func() { _, err = ParseRegexp(cur, m) }); p != "" {
				mal.Failf(fmt.Sprintf("%q %v", cur, m), "ParseRegexp panicked: %s", p)
				continue
			}
			if pe, ok := err.(ParseError); ok {
				if pe.Offset < 0 || pe.Offset > pe.EndOffset || pe.EndOffset > len(cur) {
					mal.Failf(fmt.Sprintf("%q %v", cur, m), "error range [%d,%d) is outside the pattern of length %d (%s)", pe.Offset, pe.EndOffset, len(cur), pe.Msg)
				}
			}
		}
		if l == maxL {
			return
		}
		for _, a := range alpha {
			gen(cur+a, l+1)
		}
	}
	gen("", 0)
	mal.Sample(`\x{Z`)
	for _, bad := range []string{`\xZZ`, `\xG0`, `\x{Z}`, `\uZZZZ`, `\x{110000}`, `\x{100000041}`, `\UFFFFFFFF`, `\U00110000`, `\x{FFFFFFFFF}`, `[b-a]`, `[\x62-\x61]`, `(a`, `a)`, `a{2,1}`, `a{1`, `\400`, `\8`, `[a`, `\`, `a{1,2`, `(?x)a`, `\x4`, `\u123`} {
		for _, m := range []CharsetOptions{{}, {Fold: true}, {ScanBytes: true}, {Fold: true, ScanBytes: true}} {
			mal.Case(true)
			var err error
			var re *Regexp
			if p := vRecover(func() { re, err = ParseRegexp(bad, m) }); p != "" {
				mal.Failf(fmt.Sprintf("%q %v", bad, m), "ParseRegexp panicked: %s", p)
				continue
			}
			if err == nil {
				mal.Failf(fmt.Sprintf("%q %v", bad, m), "malformed pattern accepted as %v", re)
				continue
			}
			if pe, ok := err.(ParseError); ok {
				if pe.Offset < 0 || pe.Offset > pe.EndOffset || pe.EndOffset > len(bad) {
					mal.Failf(fmt.Sprintf("%q %v", bad, m), "error range [%d,%d) is outside the pattern", pe.Offset, pe.EndOffset)
				}
			}
		}
	}
	_ = utf8.RuneError
	vWrite(t, []string{"class oracle: unicode tables of the Go standard library; case folding = closure under unicode.SimpleFold (ASCII only in bytes mode)"}, den, cls, mal)
}
