package container

// Bounded executable contract for IntSliceSet.Insert (C06: minimizeDFA interns the lookahead
// signatures of the states here, so two states share a partition iff Insert gives their signatures
// the same index). The deductive contract on Insert decides this for all inputs; this harness is the
// executable counterpart that yields a concrete failing input when that contract is broken.
//
// Every key goes through ONE caller-owned buffer that is overwritten after each call (this is how a
// caller that builds keys in a scratch slice uses the set), and the key universe is built around
// slices with equal polynomial hashes (h = h*31 + k): [62], [0 62], [1 31], [2 0], [0 1 31], [0 2 0].

import (
	"fmt"
	"testing"
)

func c06keys() [][]int {
	return [][]int{
		{62}, {0, 62}, {1, 31}, {2, 0}, {0, 1, 31}, {0, 2, 0}, // all hash to 62
		{}, {0}, {0, 0}, // all hash to 0
		{1}, {31, 0}, {1, 0}, // {1,0} and {31} differ, {31,0} = 961 alone
		{-1}, {-1, 30}, // negative elements (uint64 wrap)
	}
}

func TestVerifC06SliceSet(t *testing.T) {
	ck := vNew("C06/intsliceset-model", "every sequence of up to 4 Insert calls (5 in the thorough tier) over 14 keys with colliding hashes, all passed through one reused buffer that is overwritten after each call; compared with a map from the key's text to its first-seen rank", true,
		"IntSliceSet.Insert", "IntSliceSet.Len", "SliceEqual")
	keys := c06keys()
	maxLen := 4
	if vTier() == "thorough" {
		maxLen = 5
	}
	seq := make([]int, 0, maxLen)
	var rec func()
	run := func() {
		ck.Case(len(seq) > 1)
		s := NewIntSliceSet()
		ref := map[string]int{}
		buf := make([]int, 0, 8)
		in := ""
		for _, ki := range seq {
			in += fmt.Sprint(keys[ki])
		}
		ck.Sample(in)
		for step, ki := range seq {
			buf = append(buf[:0], keys[ki]...)
			got := s.Insert(buf)
			name := fmt.Sprint(keys[ki])
			want, seen := ref[name]
			if !seen {
				want = len(ref)
				ref[name] = want
			}
			// the caller reuses its buffer: scribble over it
			for j := range buf {
				buf[j] = -7
			}
			buf = buf[:cap(buf)]
			for j := range buf {
				buf[j] = -7
			}
			if got != want {
				ck.Failf(in, "Insert #%d of %v returned %d, want %d (keys are inserted in the order shown through one reused buffer)", step+1, keys[ki], got, want)
				return
			}
			if s.Len() != len(ref) {
				ck.Failf(in, "Len() = %d after %d distinct keys", s.Len(), len(ref))
				return
			}
		}
	}
	rec = func() {
		if len(seq) > 0 {
			run()
		}
		if len(seq) == maxLen {
			return
		}
		for k := range keys {
			seq = append(seq, k)
			rec()
			seq = seq[:len(seq)-1]
		}
	}
	rec()
	vWrite(t, []string{"IntSliceSet exercised with the listed 14 keys only; other keys are covered by the deductive contract on Insert"}, ck)
}
