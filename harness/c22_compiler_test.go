package compiler

// Bounded executable contracts at the compiler front end:
//   C22 - Compile never panics on mutated grammar texts and reports in-range, consistent positions;
//   C28 - (second half) two symbols that would receive the same identifier are reported.

import (
	"context"
	"fmt"
	"os"
	"path/filepath"
	"strings"
	"testing"

	"github.com/inspirer/textmapper/parsers/tm"
	"github.com/inspirer/textmapper/status"
)

func c22bases(t *testing.T) map[string]string {
	out := map[string]string{}
	for _, f := range []string{"../parsers/simple/simple.tm", "../parsers/json/json.tm", "../parsers/test/test.tm", "testdata/model1.tm",
		"testdata/lexer.tmerr", "testdata/parser.tmerr", "testdata/set.tmerr", "testdata/opts.tmerr", "testdata/backtrack.tmerr",
		"testdata/greedy.tmerr", "testdata/inject.tmerr", "testdata/max_la.tmerr", "testdata/conflict1.tmerr", "testdata/flexmode.tmerr"} {
		b, err := os.ReadFile(f)
		if err != nil {
			t.Logf("skipping %s: %v", f, err)
			continue
		}
		text := string(b)
		if strings.HasSuffix(f, ".tmerr") {
			// the expectation markers of the repository's error tests are not part of the grammar: with
			// them every such file ends in the parser with a syntax error and the semantic phases
			// (options, lexer rules, flex mode, sets, ...) are never reached
			text = strings.NewReplacer("«", "", "»", "").Replace(text)
		}
		out[filepath.Base(f)] = text
	}
	out["templ.tm"] = c22templ
	out["expr.tm"] = c22expr
	out["flags.tm"] = c22flags
	out["plain.tm"] = c22plain
	return out
}

// templates without any list, set or lookahead
const c22flags = `language flags(go);
lang = "flags"
package = "verif/flags"
eventBased = true
:: lexer
'a': /a/
'b': /b/
'c': /c/
:: parser
%input Input;
%flag F;
%flag G = true;
Input -> Input : Item<+F> Item<~F> Other<+G> ;
Item<F> -> Item : [F] 'a' | [!F] 'b' | 'c' Item ;
Other<G> -> Other : [G] 'a' 'b' | [!G] 'c' | 'b' ;
`

// no templates, no lists
const c22plain = `language plain(go);
lang = "plain"
package = "verif/plain"
:: lexer
'a': /a/
'é': /é/
str: /"([^"\\]|\\.)*"/
bad: /x\0a/
bad2: /привет\0a/
bad3: /€uro)/
:: parser
%input Input;
Input : 'a' Tail | 'é' ;
Tail : str | ;
`

const c22templ = `language templ(go);
lang = "templ"
package = "verif/templ"
eventBased = true
:: lexer
'a': /a/
'b': /b/
'c': /c/
',': /,/
id: /[a-z]+/ (class)
'if': /if/
ws: /[ \n]+/ (space)
error:
:: parser
%input Input, Item no-eoi;
%flag Flag = false;
%lookahead flag La = false;
%generate afterA = set(follow 'a' | first Item<+Flag>);
Input -> Input : (Item<~Flag> separator ',')+ ;
Item<Flag> -> Item :
    'a' [Flag] 'b'?
  | 'c' [!Flag] (?= Tail) id
  | 'if' Item<+Flag> %prec 'if'
  | error
;
Tail : 'a' | 'b' Tail ;
%interface Value;
`

const c22expr = `language expr(go);
lang = "expr"
package = "verif/expr"
eventBased = true
optimizeTables = true
defaultReduce = true
:: lexer
'+': /\+/
'-': /-/
'*': /\*/
'<': /</
'(': /\(/
')': /\)/
num: /[0-9]+/
ws: /[ \t\r\n]+/ (space)
:: parser
%left '+' '-';
%left '*';
%nonassoc '<';
%right unary;
%input Expr;
Expr -> Expr :
    Expr '+' Expr -> Add
  | Expr '-' Expr -> Sub
  | Expr '*' Expr -> Mul
  | Expr '<' Expr -> Less
  | '-' Expr %prec unary -> Neg
  | '(' Expr ')' -> Paren
  | num -> Num
;
`

var c22kf *vCheck

func c22check(ck *vCheck, name, text string) {
	var err error
	desc := fmt.Sprintf("%s: %q", name, c22clip(text))
	if p := vRecover(func() { _, err = Compile(context.Background(), name, text, Params{CheckOnly: true}) }); p != "" {
		if c22kf != nil && strings.Contains(p, "index out of range") && strings.Contains(p, "Rearrange.func2") && strings.Contains(p, "<syntax.Instantiate") {
			// known finding F19: stale semantic-action argument references after template instantiation
			c22kf.Case(true)
			c22kf.Failf(desc, "Compile panicked in Instantiate/Rearrange (argument references of semantic actions): %s", p)
			return
		}
		ck.Failf(desc, "Compile panicked: %s", p)
		return
	}
	if err == nil {
		return
	}
	if se, ok := err.(tm.SyntaxError); ok {
		if se.Offset < 0 || se.Endoffset < se.Offset || se.Endoffset > len(text) {
			ck.Failf(desc, "syntax error range [%d,%d) is outside the text of %d bytes", se.Offset, se.Endoffset, len(text))
		} else if line := 1 + strings.Count(text[:se.Offset], "\n"); se.Line != line {
			ck.Failf(desc, "syntax error at offset %d reports line %d, the offset is on line %d", se.Offset, se.Line, line)
		}
		return
	}
	for _, e := range status.FromError(err) {
		r := e.Origin
		if r.Filename != name && r.Filename != "" {
			continue
		}
		if r.Offset < 0 || r.EndOffset < r.Offset || r.EndOffset > len(text) {
			ck.Failf(desc, "diagnostic %q has range [%d,%d) outside the text of %d bytes", e.Msg, r.Offset, r.EndOffset, len(text))
			return
		}
		line := 1 + strings.Count(text[:r.Offset], "\n")
		col := r.Offset - strings.LastIndexByte(text[:r.Offset], '\n')
		if r.Line != line || r.Column != col {
			ck.Failf(desc, "diagnostic %q at offset %d reports %d:%d, the offset is at %d:%d", e.Msg, r.Offset, r.Line, r.Column, line, col)
			return
		}
	}
}

func c22clip(s string) string {
	if len(s) > 300 {
		return s[:150] + " ... " + s[len(s)-120:]
	}
	return s
}

func TestVerifC22(t *testing.T) {
	ck := vNew("C22/mutated-grammars", "16 base grammars (shipped simple/json/test grammars, compiler testdata, two verification grammars with templates, lookaheads, sets, precedence); seeded mutations: delete/insert/replace a byte, duplicate/delete/swap a line, splice grammar tokens, truncate, non-ASCII insertions (1..3 mutations each)", false,
		"Compile", "lexerCompiler.compile", "syntaxLoader.load", "optionsParser.parseFrom", "compiler.parsePattern")
	c22kf = vNew("C22/instantiate-argrefs", "same mutated grammars; only panics of the class described by known finding F19", false, "syntax.Instantiate", "syntax.Model.Rearrange")
	bases := c22bases(t)
	var names []string
	for n := range bases {
		names = append(names, n)
	}
	// deterministic order
	for i := range names {
		for j := i + 1; j < len(names); j++ {
			if names[j] < names[i] {
				names[i], names[j] = names[j], names[i]
			}
		}
	}
	for _, n := range names {
		ck.Case(true)
		c22check(ck, n, bases[n])
	}
	toks := []string{"(", ")", "[", "]", "{", "}", "<", ">", "|", "&", "!", "?", "*", "+", ":", ";", ",", "->", "%prec", "%input", "%left", "%flag", "%generate", "set(", "first ", "follow ", "~", "(?=", "separator", "'", "\"", "/", "\\", "::", "=", "no-eoi", "%lookahead", "%interface", "lalr(2)", "error", "é", "привет", "\xff", "$", "#", "\n", "%%", "empty", "inline", "returns", ".m", "0", "-1", "true"}
	r := vNewRand(vSeed() + 47)
	n := 2500
	if vTier() == "thorough" {
		n = 60000
	}
	for i := 0; i < n; i++ {
		name := names[r.Intn(len(names))]
		text := bases[name]
		for k := 0; k < 1+r.Intn(3); k++ {
			if len(text) == 0 {
				break
			}
			pos := r.Intn(len(text))
			switch r.Intn(10) {
			case 9:
				// the body of the next lexer pattern (": /.../") replaced by a degenerate one: empty
				// constants, empty classes, dangling operators (seeded change C22-r14m2: flex mode
				// indexed the first byte of an empty constant)
				if at := strings.Index(text[pos:], ": /"); at >= 0 {
					from := pos + at + 3
					if end := strings.IndexAny(text[from:], "/\n"); end >= 0 && text[from+end] == '/' {
						odd := []string{"()", "a{0}", "(())", "(|)", "[]", "a|", "\\", "(?i)", "x{", "{eoi}", "a{0,0}", "[^\\x00-\\U0010ffff]"}
						text = text[:from] + odd[r.Intn(len(odd))] + text[from+end:]
					}
				}
			case 0:
				text = text[:pos] + text[pos+1:]
			case 1:
				text = text[:pos] + toks[r.Intn(len(toks))] + text[pos:]
			case 2:
				text = text[:pos] + string(rune(32+r.Intn(95))) + text[pos+1:]
			case 3, 4:
				lines := strings.Split(text, "\n")
				a, b := r.Intn(len(lines)), r.Intn(len(lines))
				switch r.Intn(3) {
				case 0:
					lines = append(lines[:a], lines[a+1:]...)
				case 1:
					lines[a], lines[b] = lines[b], lines[a]
				default:
					lines = append(lines[:a+1], append([]string{lines[b]}, lines[a+1:]...)...)
				}
				text = strings.Join(lines, "\n")
			case 5:
				text = text[:pos]
			case 6:
				end := pos + r.Intn(20)
				if end > len(text) {
					end = len(text)
				}
				text = text[:pos] + text[end:]
			case 7:
				// move a chunk
				end := pos + r.Intn(30)
				if end > len(text) {
					end = len(text)
				}
				chunk := text[pos:end]
				rest := text[:pos] + text[end:]
				at := 0
				if len(rest) > 0 {
					at = r.Intn(len(rest))
				}
				text = rest[:at] + chunk + rest[at:]
			default:
				text = text[:pos] + toks[r.Intn(len(toks))] + " " + toks[r.Intn(len(toks))] + text[pos:]
			}
		}
		if strings.Contains(text, "lalr(") && strings.Contains(text, "optimizeTables") {
			continue // exits the process: known finding F14, exercised separately
		}
		ck.Case(true)
		if i < 3 {
			ck.Sample(fmt.Sprintf("%s mutated: %q", name, c22clip(text)))
		}
		c22check(ck, name, text)
	}
	if c22kf.Cases == 0 {
		c22kf.Cases, c22kf.Nontrivial = ck.Cases, ck.Nontrivial
	}
	vWrite(t, []string{"a process exit (log.Fatal) inside Compile would abort this harness and is reported as 'did not complete'"}, ck, c22kf)
}

// TestVerifC22Fatal exercises known finding F14 in its own process.
func TestVerifC22Fatal(t *testing.T) {
	ck := vNew("C22/lalr-k-with-optimize", "one grammar: lalr(2) resolution together with optimizeTables", false, "lalr.Optimize", "lalr.compiler.resolveWithLookahead")
	text := `language f14(go);
lang = "f14"
package = "verif/f14"
eventBased = true
optimizeTables = true
:: lexer
'a': /a/
'b': /b/
'c': /c/
'e': /e/
:: parser lalr(2)
%input S;
S : A 'a' 'b' | B 'a' 'c' ;
A : 'e' ;
B : 'e' ;
`
	ck.Case(true)
	// full compilation (tables are only compressed when CheckOnly is off)
	if p := vRecover(func() { Compile(context.Background(), "f14.tm", text, Params{}) }); p != "" {
		ck.Failf(text, "Compile panicked: %s", p)
	}
	vWrite(t, nil, ck)
}

// ---------- C28: identifier collisions ----------

func TestVerifC28Compiler(t *testing.T) {
	ck := vNew("C28/identifier-collisions", "pairs of symbol names (terminals, quoted terminals, nonterminals) drawn from 40 spellings; a grammar declaring both must compile iff their identifiers differ", false,
		"resolver.addToken", "resolver.addNonterms", "syntaxLoader.collectNonterms")
	terms := []string{"a", "A", "ab", "a_b", "a-b", "aB", "AB", "a1", "'a'", "'+'", "'plus'", "plus", "'a_b'", "'a-b'", "x_", "_x", "'='", "assign", "'=='", "assignassign", "'\\\\'", "esc", "char_a", "'$'", "dollar"}
	header := "language col(go);\nlang = \"col\"\npackage = \"verif/col\"\neventBased = true\n:: lexer\n"
	compileOK := func(text string) (bool, string) {
		var err error
		if p := vRecover(func() { _, err = Compile(context.Background(), "col.tm", text, Params{CheckOnly: true}) }); p != "" {
			return false, "panic: " + p
		}
		if err == nil {
			return true, ""
		}
		return false, err.Error()
	}
	for i, a := range terms {
		for _, b := range terms[i+1:] {
			text := header + a + ": /x/\n" + b + ": /y/\n:: parser\n%input Input;\nInput : " + a + " " + b + " ;\n"
			ck.Case(true)
			ok, msg := compileOK(text)
			g, _ := Compile(context.Background(), "col.tm", text, Params{CheckOnly: true})
			if !ok {
				if !strings.Contains(msg, "produce the same identifier") && !strings.Contains(msg, "same identifier") && !strings.Contains(msg, "redeclar") {
					// other front-end errors (unused tokens etc.) are not this property
				}
				continue
			}
			if g == nil {
				continue
			}
			seen := map[string]string{}
			for _, s := range g.Syms {
				if s.ID == "" {
					continue
				}
				if prev, dup := seen[s.ID]; dup {
					ck.Failf(fmt.Sprintf("%s / %s", a, b), "symbols %q and %q both received identifier %q and no error was reported", prev, s.Name, s.ID)
				}
				seen[s.ID] = s.Name
			}
		}
	}
	// nonterminals vs terminals vs generated nonterminals
	nts := []string{"a", "A", "ab", "aB", "a_b", "Ab", "A_1", "a1", "List", "list", "Input1"}
	for _, term := range []string{"A", "AB", "A_1", "LIST", "Ab", "a"} {
		for _, nt := range nts {
			for _, body := range []string{"'x'", "('x' " + term + ")+", "'x'?", "('x' | " + term + ")*"} {
				text := header + term + ": /t/\n'x': /x/\n:: parser\n%input Input;\nInput : " + nt + " ;\n" + nt + " : " + body + " ;\n"
				if nt == term {
					continue
				}
				ck.Case(true)
				ok, _ := compileOK(text)
				if !ok {
					continue
				}
				g, _ := Compile(context.Background(), "col.tm", text, Params{CheckOnly: true})
				if g == nil {
					continue
				}
				seen := map[string]string{}
				for _, s := range g.Syms {
					if s.ID == "" {
						continue
					}
					if prev, dup := seen[s.ID]; dup {
						ck.Failf(text, "symbols %q and %q both received identifier %q and no error was reported", prev, s.Name, s.ID)
					}
					seen[s.ID] = s.Name
				}
			}
		}
	}
	// explicit identifiers: name (ID): /re/ against generated and other explicit ones, in both orders
	ids := []string{"FOO", "X", "PLUS", "plus", "EOI", "CHAR_A", "A", "Ab"}
	plainNames := []string{"foo", "x", "'+'", "plus", "'a'", "a", "ab"}
	for _, id := range ids {
		for _, other := range plainNames {
			for _, id2 := range []string{"", id, "Y"} {
				for order := 0; order < 2; order++ {
					l1 := "tok1 (" + id + "): /1/\n"
					l2 := other + ": /2/\n"
					if id2 != "" {
						l2 = "tok2 (" + id2 + "): /2/\n"
					}
					if order == 1 {
						l1, l2 = l2, l1
					}
					ref2 := other
					if id2 != "" {
						ref2 = "tok2"
					}
					text := header + l1 + l2 + ":: parser\n%input Input;\nInput : tok1 " + ref2 + " ;\n"
					ck.Case(true)
					ok, _ := compileOK(text)
					if !ok {
						continue
					}
					g, _ := Compile(context.Background(), "col.tm", text, Params{CheckOnly: true})
					if g == nil {
						continue
					}
					seen := map[string]string{}
					for _, s := range g.Syms {
						if s.ID == "" {
							continue
						}
						if prev, dup := seen[s.ID]; dup {
							ck.Failf(text, "symbols %q and %q both received identifier %q and no error was reported", prev, s.Name, s.ID)
						}
						seen[s.ID] = s.Name
					}
				}
			}
		}
	}
	ck.Sample("a-b / a_b")
	vWrite(t, nil, ck)
}
