package lalr

// Shared reference machinery for the bounded LALR contracts (C01, C03, C04, C05, C06, C07):
// small-grammar generators, an Earley recogniser (language and viable prefixes), an executable
// transcription of the generated parser's table interpreter (go_parser.go.tmpl), and a reference
// LALR(1) construction (canonical LR(1) item sets merged by core).

import (
	"fmt"
	"sort"
	"strings"
)

// ---------- grammars ----------

type hGrammar struct {
	nt     int // number of terminals including EOI (terminal 0)
	nn     int // number of nonterminals
	rules  []Rule
	inputs []Input
	prec   []Precedence
	marks  []string
}

func (g *hGrammar) build() *Grammar {
	ret := &Grammar{Terminals: g.nt, Inputs: g.inputs, Precedence: g.prec, Markers: g.marks, Origin: hNode("grammar")}
	ret.Symbols = append(ret.Symbols, "EOI")
	for i := 1; i < g.nt; i++ {
		ret.Symbols = append(ret.Symbols, string(rune('a'+i-1)))
	}
	for i := 0; i < g.nn; i++ {
		ret.Symbols = append(ret.Symbols, string(rune('A'+i)))
	}
	for i, r := range g.rules {
		r.Action = i
		r.Type = -1
		r.Origin = hNode(fmt.Sprintf("rule%d", i))
		ret.Rules = append(ret.Rules, r)
	}
	return ret
}

func (g *hGrammar) String() string {
	name := func(s Sym) string {
		switch {
		case s < 0:
			return "." + g.marks[s.AsMarker()]
		case s == 0:
			return "$"
		case int(s) < g.nt:
			return string(rune('a' + int(s) - 1))
		}
		return string(rune('A' + int(s) - g.nt))
	}
	var b strings.Builder
	for i, r := range g.rules {
		if i > 0 {
			b.WriteString("; ")
		}
		b.WriteString(name(r.LHS) + "->")
		for _, s := range r.RHS {
			b.WriteString(name(s))
		}
		if r.Precedence != 0 {
			b.WriteString(" %prec " + name(r.Precedence))
		}
	}
	b.WriteString(" | inputs:")
	for _, in := range g.inputs {
		b.WriteString(" " + name(in.Nonterminal))
		if !in.Eoi {
			b.WriteString("(no-eoi)")
		}
	}
	for _, p := range g.prec {
		b.WriteString(" %" + p.Associativity.String())
		for _, t := range p.Terminals {
			b.WriteString(" " + name(t))
		}
	}
	return b.String()
}

type hNode string

// plain RHS (markers stripped)
func hRHS(r Rule) []Sym {
	var out []Sym
	for _, s := range r.RHS {
		if !s.IsStateMarker() {
			out = append(out, s)
		}
	}
	return out
}

// hUseful reports whether every nonterminal is productive and reachable from some input.
func (g *hGrammar) useful() bool {
	prod := make([]bool, g.nn)
	for changed := true; changed; {
		changed = false
		for _, r := range g.rules {
			if prod[int(r.LHS)-g.nt] {
				continue
			}
			ok := true
			for _, s := range hRHS(r) {
				if int(s) >= g.nt && !prod[int(s)-g.nt] {
					ok = false
				}
			}
			if ok {
				prod[int(r.LHS)-g.nt] = true
				changed = true
			}
		}
	}
	reach := make([]bool, g.nn)
	var stack []int
	for _, in := range g.inputs {
		if !reach[int(in.Nonterminal)-g.nt] {
			reach[int(in.Nonterminal)-g.nt] = true
			stack = append(stack, int(in.Nonterminal)-g.nt)
		}
	}
	for len(stack) > 0 {
		n := stack[len(stack)-1]
		stack = stack[:len(stack)-1]
		for _, r := range g.rules {
			if int(r.LHS)-g.nt != n {
				continue
			}
			for _, s := range hRHS(r) {
				if int(s) >= g.nt && !reach[int(s)-g.nt] {
					reach[int(s)-g.nt] = true
					stack = append(stack, int(s)-g.nt)
				}
			}
		}
	}
	for i := 0; i < g.nn; i++ {
		if !prod[i] || !reach[i] {
			return false
		}
	}
	return true
}

// hRandGrammar draws a small grammar. Terminal 0 is EOI and never appears in rules.
func hRandGrammar(r *vRand, maxNT, maxT, maxRules, maxLen int, opts hGenOpts) *hGrammar {
	for {
		g := &hGrammar{nt: 2 + r.Intn(maxT), nn: 1 + r.Intn(maxNT)}
		nr := g.nn + r.Intn(maxRules-g.nn+1)
		if opts.markers {
			g.marks = []string{"m0", "m1"}
		}
		for i := 0; i < nr; i++ {
			lhs := i
			if i >= g.nn {
				lhs = r.Intn(g.nn)
			}
			ln := r.Intn(maxLen + 1)
			if r.Intn(3) == 0 {
				ln = r.Intn(2)
			}
			var rhs []Sym
			for k := 0; k < ln; k++ {
				if r.Intn(5) < 3 {
					rhs = append(rhs, Sym(1+r.Intn(g.nt-1)))
				} else {
					rhs = append(rhs, Sym(g.nt+r.Intn(g.nn)))
				}
				if opts.markers && r.Intn(6) == 0 {
					rhs = append(rhs, Marker(r.Intn(2)))
				}
			}
			// state markers also in front of rules, and often in otherwise empty rules (which stay nullable)
			if opts.markers && (r.Intn(8) == 0 || ln == 0 && r.Intn(2) == 0) {
				rhs = append([]Sym{Marker(r.Intn(2))}, rhs...)
			}
			rule := Rule{LHS: Sym(g.nt + lhs), RHS: rhs}
			if opts.prec && r.Intn(5) == 0 {
				rule.Precedence = Sym(1 + r.Intn(g.nt-1))
			}
			g.rules = append(g.rules, rule)
		}
		g.inputs = []Input{{Nonterminal: Sym(g.nt), Eoi: r.Intn(4) != 0 || !opts.noEoi}}
		if opts.multiInput && g.nn > 1 && r.Intn(3) == 0 {
			g.inputs = append(g.inputs, Input{Nonterminal: Sym(g.nt + 1 + r.Intn(g.nn-1)), Eoi: r.Intn(2) == 0 || !opts.noEoi})
		}
		if opts.multiInput && opts.noEoi && r.Intn(6) == 0 {
			// the same nonterminal as a second entry point with the other eoi mode
			// (exact duplicates of an input are degenerate and not generated)
			g.inputs = append(g.inputs, Input{Nonterminal: Sym(g.nt), Eoi: !g.inputs[0].Eoi})
		}
		if opts.prec {
			used := map[Sym]bool{}
			ng := 1 + r.Intn(3)
			for k := 0; k < ng; k++ {
				p := Precedence{Associativity: Associativity(r.Intn(3))}
				for t := 1; t < g.nt; t++ {
					if !used[Sym(t)] && r.Intn(ng+1) == 0 {
						used[Sym(t)] = true
						p.Terminals = append(p.Terminals, Sym(t))
					}
				}
				if len(p.Terminals) > 0 {
					g.prec = append(g.prec, p)
				}
			}
		}
		if g.useful() {
			return g
		}
	}
}

// withFreshStart adds a start nonterminal that occurs on no right-hand side (the textbook setting
// in which "canonical LALR(1)" is defined) and makes it the only input.
func (g *hGrammar) withFreshStart(eoi bool) *hGrammar {
	n := &hGrammar{nt: g.nt, nn: g.nn + 1, prec: g.prec, marks: g.marks}
	n.rules = append([]Rule(nil), g.rules...)
	s := Sym(g.nt + g.nn)
	n.rules = append(n.rules, Rule{LHS: s, RHS: []Sym{g.inputs[0].Nonterminal}})
	n.inputs = []Input{{Nonterminal: s, Eoi: eoi}}
	return n
}

// hExprGrammar draws an operator grammar: E -> E op E [%prec t] | atom, with random precedence
// groups (left/right/nonassoc) over the operators and possibly an extra pseudo-token.
func hExprGrammar(r *vRand) *hGrammar {
	nops := 1 + r.Intn(3)
	g := &hGrammar{nt: 1 + nops + 2, nn: 2} // ops 1..nops, atom, pseudo-token
	atom := Sym(nops + 1)
	pseudo := Sym(nops + 2)
	S, E := Sym(g.nt), Sym(g.nt+1)
	g.rules = append(g.rules, Rule{LHS: S, RHS: []Sym{E}})
	for k := 0; k < 1+r.Intn(nops+2); k++ {
		op := Sym(1 + r.Intn(nops))
		rule := Rule{LHS: E, RHS: []Sym{E, op, E}}
		switch r.Intn(4) {
		case 0:
			rule.Precedence = pseudo
		case 1:
			rule.Precedence = Sym(1 + r.Intn(nops))
		}
		g.rules = append(g.rules, rule)
	}
	if r.Intn(3) == 0 {
		g.rules = append(g.rules, Rule{LHS: E, RHS: []Sym{Sym(1 + r.Intn(nops)), E}})
	}
	g.rules = append(g.rules, Rule{LHS: E, RHS: []Sym{atom}})
	g.inputs = []Input{{Nonterminal: S, Eoi: true}}
	used := map[Sym]bool{}
	for k := 0; k < 1+r.Intn(3); k++ {
		p := Precedence{Associativity: Associativity(r.Intn(3))}
		for _, t := range []Sym{1, 2, 3, pseudo} {
			if int(t) < g.nt && t != atom && !used[t] && r.Intn(2) == 0 {
				used[t] = true
				p.Terminals = append(p.Terminals, t)
			}
		}
		if len(p.Terminals) > 0 {
			g.prec = append(g.prec, p)
		}
	}
	return g
}

type hGenOpts struct {
	markers, prec, noEoi, multiInput bool
}

// ---------- Earley recogniser ----------

type hEarley struct {
	g     *hGrammar
	rhs   [][]Sym
	null  []bool
	start Sym
}

func newEarley(g *hGrammar, start Sym) *hEarley {
	e := &hEarley{g: g, start: start}
	for _, r := range g.rules {
		e.rhs = append(e.rhs, hRHS(r))
	}
	e.null = make([]bool, g.nn)
	for changed := true; changed; {
		changed = false
		for i, r := range g.rules {
			if e.null[int(r.LHS)-g.nt] {
				continue
			}
			ok := true
			for _, s := range e.rhs[i] {
				if int(s) < g.nt || !e.null[int(s)-g.nt] {
					ok = false
				}
			}
			if ok {
				e.null[int(r.LHS)-g.nt] = true
				changed = true
			}
		}
	}
	return e
}

type hItem struct{ rule, dot, origin int }

// run returns, for each prefix length i (0..len(w)): viable[i] = the item set after w[:i] is
// non-empty, sentence[i] = w[:i] is a sentence of start.
func (e *hEarley) run(w []Sym) (viable, sentence []bool) {
	n := len(w)
	sets := make([]map[hItem]bool, n+1)
	order := make([][]hItem, n+1)
	add := func(k int, it hItem) {
		if !sets[k][it] {
			sets[k][it] = true
			order[k] = append(order[k], it)
		}
	}
	for k := range sets {
		sets[k] = map[hItem]bool{}
	}
	for i, r := range e.g.rules {
		if r.LHS == e.start {
			add(0, hItem{i, 0, 0})
		}
	}
	viable = make([]bool, n+1)
	sentence = make([]bool, n+1)
	for k := 0; k <= n; k++ {
		for idx := 0; idx < len(order[k]); idx++ {
			it := order[k][idx]
			rhs := e.rhs[it.rule]
			if it.dot < len(rhs) {
				s := rhs[it.dot]
				if int(s) >= e.g.nt {
					for i, r := range e.g.rules {
						if r.LHS == s {
							add(k, hItem{i, 0, k})
						}
					}
					if e.null[int(s)-e.g.nt] {
						add(k, hItem{it.rule, it.dot + 1, it.origin})
					}
				} else if k < n && w[k] == s {
					add(k+1, hItem{it.rule, it.dot + 1, it.origin})
				}
			} else {
				lhs := e.g.rules[it.rule].LHS
				for _, p := range order[it.origin] {
					prhs := e.rhs[p.rule]
					if p.dot < len(prhs) && prhs[p.dot] == lhs {
						add(k, hItem{p.rule, p.dot + 1, p.origin})
					}
				}
			}
		}
		viable[k] = len(order[k]) > 0
		for it := range sets[k] {
			if it.origin == 0 && it.dot == len(e.rhs[it.rule]) && e.g.rules[it.rule].LHS == e.start {
				sentence[k] = true
			}
		}
	}
	return
}

// hExpect computes the specified outcome for input `in` on token string w:
// accepted, and (if rejected) the index of the token at which the error must be reported
// (len(w) = at end of input).
func hExpect(e *hEarley, in Input, w []Sym) (accept bool, errAt int) {
	viable, sentence := e.run(w)
	if in.Eoi {
		if sentence[len(w)] {
			return true, -1
		}
	} else {
		for k := 0; k <= len(w); k++ {
			if sentence[k] {
				return true, -1
			}
		}
	}
	for k := 1; k <= len(w); k++ {
		if !viable[k] {
			return false, k - 1
		}
	}
	return false, len(w)
}

// ---------- table interpreter: transcription of go_parser.go.tmpl ----------

type hTrace struct {
	accept bool
	errAt  int      // token index of the reported error (-1 if accepted)
	events []string // shifts and reductions
	bad    string   // table inconsistency detected while running
	// EOI was shifted into the final state of a different input (the parse then fails there)
	otherFinal bool
}

type hRunOpts struct {
	optimized bool
	classOf   func(rule int) string // how reductions are recorded (rule or rule class)
	maxSteps  int
	visited   *[]int // when set: receives every state pushed on the stack, in order
}

func (t *Tables) hAction(state int, next func(k int) int, o hRunOpts) (int, string) {
	if o.optimized {
		enc := t.Optimized
		action := enc.Action[state]
		if action > enc.Base {
			pos := action + next(0)
			if pos >= 0 && pos < len(enc.Table) && enc.Check[pos] == next(0) {
				return enc.Table[pos], ""
			}
		}
		return enc.DefAct[state], ""
	}
	action := t.Action[state]
	if action < -2 {
		depth := 0
		for action < -2 {
			a := -action - 3
			sym := next(depth)
			for ; t.Lalr[a] >= 0; a += 2 {
				if t.Lalr[a] == sym {
					break
				}
			}
			if a+1 >= len(t.Lalr) {
				return -2, "Lalr list is not terminated"
			}
			action = t.Lalr[a+1]
			depth++
			if depth > 16 {
				return -2, "deep lookahead does not terminate"
			}
		}
	}
	return action, ""
}

func (t *Tables) hGoto(state, symbol, terms int, o hRunOpts) int {
	if !o.optimized {
		return t.gotoState(state, symbol)
	}
	enc := t.Optimized
	if symbol >= terms {
		pos := enc.Goto[symbol-terms] + state
		if pos >= 0 && pos < len(enc.Table) && enc.Check[pos] == state {
			return enc.Table[pos]
		}
		return enc.DefGoto[symbol-terms]
	}
	action := enc.Action[state]
	if action == enc.Base {
		return -1
	}
	pos := action + symbol
	if pos >= 0 && pos < len(enc.Table) && enc.Check[pos] == symbol {
		action = enc.Table[pos]
	} else {
		action = enc.DefAct[state]
	}
	if action < -1 {
		return -2 - action
	}
	return -1
}

// hRun parses w (terminals, without EOI) from input index in.
func (t *Tables) hRun(g *Grammar, in int, w []Sym, o hRunOpts) (tr hTrace) {
	defer func() {
		if r := recover(); r != nil {
			tr.bad = fmt.Sprint("table interpreter panicked: ", r)
		}
	}()
	terms := g.Terminals
	end := t.FinalStates[in]
	state := in
	stack := []int{state}
	pos := 0
	next := func(k int) int {
		if pos+k < len(w) {
			return int(w[pos+k])
		}
		return 0
	}
	if o.maxSteps == 0 {
		o.maxSteps = 2000
	}
	tr.errAt = -1
	for steps := 0; state != end; steps++ {
		if steps > o.maxSteps {
			tr.bad = "parser does not terminate"
			return
		}
		action, bad := t.hAction(state, next, o)
		if bad != "" {
			tr.bad = bad
			return
		}
		isShift := action == -1
		if o.optimized {
			isShift = action < -1
		}
		switch {
		case action >= 0:
			rule := action
			if rule >= len(t.RuleLen) {
				tr.bad = fmt.Sprintf("reduce of unknown rule %d", rule)
				return
			}
			ln := t.RuleLen[rule]
			if ln > len(stack)-1 {
				tr.bad = fmt.Sprintf("reduce of rule %d pops below the stack bottom", rule)
				return
			}
			stack = stack[:len(stack)-ln]
			state = t.hGoto(stack[len(stack)-1], t.RuleSymbol[rule], terms, o)
			stack = append(stack, state)
			if o.visited != nil {
				*o.visited = append(*o.visited, state)
			}
			if o.classOf != nil {
				tr.events = append(tr.events, "r"+o.classOf(rule))
			} else {
				tr.events = append(tr.events, fmt.Sprintf("r%d", rule))
			}
		case isShift:
			if o.optimized {
				state = -2 - action
			} else {
				state = t.hGoto(state, next(0), terms, o)
			}
			if state >= 0 {
				stack = append(stack, state)
				if o.visited != nil {
					*o.visited = append(*o.visited, state)
				}
				tr.events = append(tr.events, fmt.Sprintf("s%d", next(0)))
				if next(0) != 0 {
					pos++
				} else if state != end {
					for _, f := range t.FinalStates {
						if f == state {
							tr.otherFinal = true
						}
					}
				}
			}
		}
		errAction := -2
		if o.optimized {
			errAction = -1
		}
		if action == errAction || state == -1 {
			tr.errAt = pos
			return
		}
	}
	tr.accept = true
	return
}

// ---------- reference LALR(1): canonical LR(1) sets merged by core ----------

type lr1Item struct{ rule, dot, la int }

type refState struct {
	items  map[lr1Item]bool // closed LR(1) item set
	trans  map[int]int      // symbol -> state
	isStart bool
}

type refLALR struct {
	g      *hGrammar
	first  [][]bool // nonterminal -> terminal set
	null   []bool
	states []*refState // merged
	starts []int
	// augmented rules: index len(g.rules)+i is S'_i -> S_i [EOI]
}

func (r *refLALR) rhsOf(rule int) []Sym {
	if rule < len(r.g.rules) {
		return hRHS(r.g.rules[rule])
	}
	in := r.g.inputs[rule-len(r.g.rules)]
	if in.Eoi {
		return []Sym{in.Nonterminal, EOI}
	}
	return []Sym{in.Nonterminal}
}

func (r *refLALR) firstOfSeq(seq []Sym, la int) map[int]bool {
	out := map[int]bool{}
	for _, s := range seq {
		if int(s) < r.g.nt {
			out[int(s)] = true
			return out
		}
		for t, ok := range r.first[int(s)-r.g.nt] {
			if ok {
				out[t] = true
			}
		}
		if !r.null[int(s)-r.g.nt] {
			return out
		}
	}
	out[la] = true
	return out
}

func (r *refLALR) closure(items map[lr1Item]bool) {
	work := make([]lr1Item, 0, len(items))
	for it := range items {
		work = append(work, it)
	}
	for len(work) > 0 {
		it := work[len(work)-1]
		work = work[:len(work)-1]
		rhs := r.rhsOf(it.rule)
		if it.dot >= len(rhs) || int(rhs[it.dot]) < r.g.nt {
			continue
		}
		nt := rhs[it.dot]
		las := r.firstOfSeq(rhs[it.dot+1:], it.la)
		for i, rule := range r.g.rules {
			if rule.LHS != nt {
				continue
			}
			for la := range las {
				n := lr1Item{i, 0, la}
				if !items[n] {
					items[n] = true
					work = append(work, n)
				}
			}
		}
	}
}

func coreKey(items map[lr1Item]bool, kernelOnly func(lr1Item) bool) string {
	seen := map[[2]int]bool{}
	var ks [][2]int
	for it := range items {
		if !kernelOnly(it) {
			continue
		}
		k := [2]int{it.rule, it.dot}
		if !seen[k] {
			seen[k] = true
			ks = append(ks, k)
		}
	}
	sort.Slice(ks, func(i, j int) bool { return ks[i][0] < ks[j][0] || ks[i][0] == ks[j][0] && ks[i][1] < ks[j][1] })
	return fmt.Sprint(ks)
}

func fullKey(items map[lr1Item]bool) string {
	var ks []lr1Item
	for it := range items {
		ks = append(ks, it)
	}
	sort.Slice(ks, func(i, j int) bool {
		a, b := ks[i], ks[j]
		if a.rule != b.rule {
			return a.rule < b.rule
		}
		if a.dot != b.dot {
			return a.dot < b.dot
		}
		return a.la < b.la
	})
	return fmt.Sprint(ks)
}

// buildRef constructs the LALR(1) automaton. Lookahead terminal -1 is unused; no-eoi inputs seed
// their augmented item with every terminal.
func buildRef(g *hGrammar) *refLALR {
	r := &refLALR{g: g}
	r.null = make([]bool, g.nn)
	r.first = make([][]bool, g.nn)
	for i := range r.first {
		r.first[i] = make([]bool, g.nt)
	}
	for changed := true; changed; {
		changed = false
		for _, rule := range g.rules {
			lhs := int(rule.LHS) - g.nt
			allNull := true
			for _, s := range hRHS(rule) {
				if int(s) < g.nt {
					if !r.first[lhs][int(s)] {
						r.first[lhs][int(s)] = true
						changed = true
					}
					allNull = false
					break
				}
				for t, ok := range r.first[int(s)-g.nt] {
					if ok && !r.first[lhs][t] {
						r.first[lhs][t] = true
						changed = true
					}
				}
				if !r.null[int(s)-g.nt] {
					allNull = false
					break
				}
			}
			if allNull && !r.null[lhs] {
				r.null[lhs] = true
				changed = true
			}
		}
	}
	// canonical LR(1)
	type cstate struct {
		items map[lr1Item]bool
		trans map[int]int
		start bool
	}
	var cs []*cstate
	index := map[string]int{}
	var queue []int
	for i, in := range g.inputs {
		items := map[lr1Item]bool{}
		aug := len(g.rules) + i
		if in.Eoi {
			items[lr1Item{aug, 0, 0}] = true
		} else {
			for t := 0; t < g.nt; t++ {
				items[lr1Item{aug, 0, t}] = true
			}
		}
		r.closure(items)
		cs = append(cs, &cstate{items: items, trans: map[int]int{}, start: true})
		queue = append(queue, i)
	}
	for len(queue) > 0 {
		si := queue[0]
		queue = queue[1:]
		s := cs[si]
		bySym := map[int]map[lr1Item]bool{}
		for it := range s.items {
			rhs := r.rhsOf(it.rule)
			if it.dot < len(rhs) {
				sym := int(rhs[it.dot])
				if bySym[sym] == nil {
					bySym[sym] = map[lr1Item]bool{}
				}
				bySym[sym][lr1Item{it.rule, it.dot + 1, it.la}] = true
			}
		}
		var syms []int
		for sym := range bySym {
			syms = append(syms, sym)
		}
		sort.Ints(syms)
		for _, sym := range syms {
			items := bySym[sym]
			r.closure(items)
			k := fullKey(items)
			ti, ok := index[k]
			if !ok {
				ti = len(cs)
				index[k] = ti
				cs = append(cs, &cstate{items: items, trans: map[int]int{}})
				queue = append(queue, ti)
			}
			s.trans[sym] = ti
		}
	}
	// merge by core (start states are never merged)
	// The implementation has no augmented productions: the state reached on the input nonterminal
	// is the ordinary LR(0) state of that core (shared with every other context that has the same
	// core), or a fresh empty state when no rule has the dot after that nonterminal. The reference
	// therefore merges by the core of real rules only.
	hasReal := func(items map[lr1Item]bool) bool {
		for it := range items {
			if it.dot > 0 && it.rule < len(g.rules) {
				return true
			}
		}
		return false
	}
	isKernel := func(it lr1Item) bool { return it.dot > 0 && it.rule < len(g.rules) }
	isAugKernel := func(it lr1Item) bool { return it.dot > 0 }
	merged := map[string]int{}
	remap := make([]int, len(cs))
	for i, s := range cs {
		if s.start {
			remap[i] = len(r.states)
			r.starts = append(r.starts, len(r.states))
			r.states = append(r.states, &refState{items: map[lr1Item]bool{}, trans: map[int]int{}, isStart: true})
			continue
		}
		k := coreKey(s.items, isKernel)
		if !hasReal(s.items) {
			k = "aug" + coreKey(s.items, isAugKernel)
		}
		m, ok := merged[k]
		if !ok {
			m = len(r.states)
			merged[k] = m
			r.states = append(r.states, &refState{items: map[lr1Item]bool{}, trans: map[int]int{}})
		}
		remap[i] = m
	}
	for i, s := range cs {
		m := r.states[remap[i]]
		for it := range s.items {
			m.items[it] = true
		}
		for sym, t := range s.trans {
			m.trans[sym] = remap[t]
		}
	}
	return r
}

// reduces returns rule -> lookahead set for the completed items of s (augmented rules excluded).
func (r *refLALR) reduces(s *refState) map[int]map[int]bool {
	out := map[int]map[int]bool{}
	for it := range s.items {
		if it.rule >= len(r.g.rules) {
			continue
		}
		if it.dot == len(r.rhsOf(it.rule)) {
			if out[it.rule] == nil {
				out[it.rule] = map[int]bool{}
			}
			out[it.rule][it.la] = true
		}
	}
	return out
}

// hStrings enumerates all terminal strings up to length n over terminals 1..nt-1.
func hStrings(nt, n int) [][]Sym {
	out := [][]Sym{{}}
	prev := [][]Sym{{}}
	for l := 1; l <= n; l++ {
		var cur [][]Sym
		for _, p := range prev {
			for t := 1; t < nt; t++ {
				cur = append(cur, append(append([]Sym(nil), p...), Sym(t)))
			}
		}
		out = append(out, cur...)
		prev = cur
	}
	return out
}

// hSentenceNeighbours enumerates sentences of the first input (leftmost derivations, length and
// count bounded) together with every single-token substitution, deletion and insertion.
func hSentenceNeighbours(g *hGrammar, maxLen, maxCount int) [][]Sym {
	type form []Sym
	seen := map[string]bool{}
	var sentences [][]Sym
	queue := []form{{g.inputs[0].Nonterminal}}
	for len(queue) > 0 && len(sentences) < maxCount {
		f := queue[0]
		queue = queue[1:]
		pos := -1
		for i, s := range f {
			if int(s) >= g.nt {
				pos = i
				break
			}
		}
		if pos < 0 {
			k := fmt.Sprint(f)
			if !seen[k] {
				seen[k] = true
				sentences = append(sentences, append([]Sym(nil), f...))
			}
			continue
		}
		for _, r := range g.rules {
			if r.LHS != f[pos] {
				continue
			}
			nf := append(append(append(form(nil), f[:pos]...), hRHS(r)...), f[pos+1:]...)
			terms := 0
			for _, s := range nf {
				if int(s) < g.nt {
					terms++
				}
			}
			if terms <= maxLen && len(nf) <= maxLen+3 && len(queue) < 5000 {
				queue = append(queue, nf)
			}
		}
	}
	out := [][]Sym{{}}
	add := func(w []Sym) {
		k := fmt.Sprint(w)
		if !seen["n"+k] {
			seen["n"+k] = true
			out = append(out, append([]Sym(nil), w...))
		}
	}
	for _, s := range sentences {
		add(s)
		for i := 0; i <= len(s); i++ {
			if i < len(s) {
				add(append(append([]Sym(nil), s[:i]...), s[i+1:]...))
			}
			for t := 1; t < g.nt; t++ {
				add(append(append(append([]Sym(nil), s[:i]...), Sym(t)), s[i:]...))
				if i < len(s) {
					w := append([]Sym(nil), s...)
					w[i] = Sym(t)
					add(w)
				}
			}
		}
	}
	return out
}

func hStr(w []Sym) string {
	var b strings.Builder
	for _, s := range w {
		b.WriteByte(byte('a' + int(s) - 1))
	}
	return b.String()
}
