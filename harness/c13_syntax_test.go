package syntax

// Bounded executable contracts for the grammar transformations:
//   C13 - Expand preserves the language of every input nonterminal,
//   C14 - Instantiate preserves meaning under the parameter valuation,
//   C15 - ResolveSets computes the first/last/follow/precede/any sets of the reachable rules.
// Models are built directly as syntax.Model values; their meaning is computed by an independent
// denotation into plain context-free rules and an Earley recogniser.

import (
	"fmt"
	"sort"
	"strings"
	"testing"

	"github.com/inspirer/textmapper/status"
)

type c13node string

func (n c13node) SourceRange() status.SourceRange { return status.SourceRange{Filename: string(n)} }

// ---------- plain CFG + Earley ----------

type c13cfg struct {
	nterm int
	rules map[int][][]int // nonterminal symbol -> alternatives
	next  int
	// nonterminals standing for set(...) uses
	opaque map[int]bool
}

func (g *c13cfg) fresh() int { g.next++; return g.next - 1 }

type c13item struct{ lhs, alt, dot, origin int }

// accepts reports whether w (terminal symbols) is derived from start.
func (g *c13cfg) accepts(start int, w []int) bool {
	n := len(w)
	sets := make([]map[c13item]bool, n+1)
	order := make([][]c13item, n+1)
	for i := range sets {
		sets[i] = map[c13item]bool{}
	}
	add := func(k int, it c13item) {
		if !sets[k][it] {
			sets[k][it] = true
			order[k] = append(order[k], it)
		}
	}
	for a := range g.rules[start] {
		add(0, c13item{start, a, 0, 0})
	}
	nullable := map[int]bool{}
	for changed := true; changed; {
		changed = false
		for lhs, alts := range g.rules {
			if nullable[lhs] {
				continue
			}
			for _, alt := range alts {
				ok := true
				for _, s := range alt {
					if s < g.nterm || !nullable[s] {
						ok = false
					}
				}
				if ok {
					nullable[lhs] = true
					changed = true
				}
			}
		}
	}
	for k := 0; k <= n; k++ {
		for idx := 0; idx < len(order[k]); idx++ {
			it := order[k][idx]
			rhs := g.rules[it.lhs][it.alt]
			if it.dot < len(rhs) {
				s := rhs[it.dot]
				if s >= g.nterm {
					for a := range g.rules[s] {
						add(k, c13item{s, a, 0, k})
					}
					if nullable[s] {
						add(k, c13item{it.lhs, it.alt, it.dot + 1, it.origin})
					}
				} else if k < n && w[k] == s {
					add(k+1, c13item{it.lhs, it.alt, it.dot + 1, it.origin})
				}
			} else {
				for _, p := range order[it.origin] {
					prhs := g.rules[p.lhs][p.alt]
					if p.dot < len(prhs) && prhs[p.dot] == it.lhs {
						add(k, c13item{p.lhs, p.alt, p.dot + 1, p.origin})
					}
				}
			}
		}
	}
	for it := range sets[n] {
		if it.lhs == start && it.origin == 0 && it.dot == len(g.rules[start][it.alt]) {
			return true
		}
	}
	return false
}

// ---------- denotation of syntax.Model ----------

type c13den struct {
	m    *Model
	g    *c13cfg
	sets [][]int         // resolved terminal sets by index (nil = unknown)
	env  map[int]string  // parameter valuation for conditionals (C14)
	inst map[string]int  // (nonterm, valuation) -> cfg symbol, for templated models
	todo []func()
}

func newDen(m *Model, sets [][]int) *c13den {
	d := &c13den{m: m, sets: sets, inst: map[string]int{}}
	d.g = &c13cfg{nterm: len(m.Terminals), rules: map[int][][]int{}}
	d.g.next = len(m.Terminals) + len(m.Nonterms)
	return d
}

// sym wraps alternatives into one symbol.
func (d *c13den) sym(alts [][]int) int {
	if len(alts) == 1 && len(alts[0]) == 1 {
		return alts[0][0]
	}
	s := d.g.fresh()
	d.g.rules[s] = alts
	return s
}

func (d *c13den) alts(e *Expr, env map[int]string) [][]int {
	switch e.Kind {
	case Empty, StateMarker, Command, Lookahead:
		return [][]int{{}}
	case Reference:
		if e.Symbol < len(d.m.Terminals) {
			return [][]int{{e.Symbol}}
		}
		return [][]int{{d.ntSym(e.Symbol-len(d.m.Terminals), e.Args, env)}}
	case Optional:
		return append(d.alts(e.Sub[0], env), []int{})
	case Choice:
		var out [][]int
		for _, s := range e.Sub {
			out = append(out, d.alts(s, env)...)
		}
		return out
	case Sequence:
		seq := []int{}
		for _, s := range e.Sub {
			a := d.alts(s, env)
			if len(a) == 1 {
				seq = append(seq, a[0]...)
			} else {
				seq = append(seq, d.sym(a))
			}
		}
		return [][]int{seq}
	case Assign, Append, Arrow, Prec:
		return d.alts(e.Sub[0], env)
	case Conditional:
		if c13eval(e.Predicate, env) {
			return d.alts(e.Sub[0], env)
		}
		return nil
	case Set:
		// one nonterminal per use: setof -> t1 | t2 | ...
		s := d.g.fresh()
		var out [][]int
		for _, t := range d.sets[e.SetIndex] {
			out = append(out, []int{t})
		}
		d.g.rules[s] = out
		if d.g.opaque == nil {
			d.g.opaque = map[int]bool{}
		}
		d.g.opaque[s] = true
		return [][]int{{s}}
	case List:
		elem := d.sym(d.alts(e.Sub[0], env))
		l := d.g.fresh()
		if len(e.Sub) > 1 {
			sep := d.sym(d.alts(e.Sub[1], env))
			d.g.rules[l] = [][]int{{elem}, {l, sep, elem}}
		} else {
			d.g.rules[l] = [][]int{{elem}, {l, elem}}
		}
		if e.ListFlags&OneOrMore != 0 {
			return [][]int{{l}}
		}
		return [][]int{{l}, {}}
	}
	panic(fmt.Sprintf("c13den: unexpected kind %v", e.Kind))
}

func c13eval(p *Predicate, env map[int]string) bool {
	switch p.Op {
	case Or:
		for _, s := range p.Sub {
			if c13eval(s, env) {
				return true
			}
		}
		return false
	case And:
		for _, s := range p.Sub {
			if !c13eval(s, env) {
				return false
			}
		}
		return true
	case Not:
		return !c13eval(p.Sub[0], env)
	default:
		return env[p.Param] == p.Value
	}
}

// ntSym returns the cfg symbol of nonterminal nt under the valuation given by args/env.
func (d *c13den) ntSym(nt int, args []Arg, env map[int]string) int {
	n := d.m.Nonterms[nt]
	if len(d.m.Params) == 0 {
		s := len(d.m.Terminals) + nt
		if _, ok := d.g.rules[s]; !ok {
			d.g.rules[s] = nil
			d.g.rules[s] = d.alts(n.Value, nil)
		}
		return s
	}
	// templated: the callee sees its own parameters (explicit args, else propagated for lookahead
	// flags / same-named params, else defaults)
	nenv := map[int]string{}
	for _, p := range n.Params {
		nenv[p] = d.m.Params[p].DefaultValue
		if d.m.Params[p].Lookahead {
			if v, ok := env[p]; ok {
				nenv[p] = v
			}
		}
	}
	for _, a := range args {
		if a.Value != "" {
			nenv[a.Param] = a.Value
		} else if v, ok := env[a.TakeFrom]; ok {
			nenv[a.Param] = v
		}
	}
	key := fmt.Sprint(nt, c13envKey(nenv))
	if s, ok := d.inst[key]; ok {
		return s
	}
	s := d.g.fresh()
	d.inst[key] = s
	d.g.rules[s] = d.alts(n.Value, nenv)
	return s
}

func c13envKey(env map[int]string) string {
	var ks []int
	for k := range env {
		ks = append(ks, k)
	}
	sort.Ints(ks)
	var sb strings.Builder
	for _, k := range ks {
		fmt.Fprintf(&sb, "%d=%s;", k, env[k])
	}
	return sb.String()
}

// ---------- generators ----------

func c13ref(sym int) *Expr { return &Expr{Kind: Reference, Symbol: sym, Origin: c13node("ref")} }

// c13named sometimes gives a symbol a field name (name=sym, name+=sym).
func c13named(r *vRand, ref *Expr) *Expr {
	switch r.Intn(6) {
	case 0:
		return &Expr{Kind: Assign, Name: "f", Origin: c13node("f"), Sub: []*Expr{ref}}
	case 1:
		return &Expr{Kind: Append, Name: "g", Origin: c13node("g"), Sub: []*Expr{ref}}
	}
	return ref
}

func c13rand(r *vRand, depth, nterms, nnts int, allowSets int, lists bool) *Expr {
	o := c13node("e")
	if depth == 0 || r.Intn(4) == 0 {
		switch {
		case allowSets > 0 && r.Intn(6) == 0:
			return &Expr{Kind: Set, SetIndex: r.Intn(allowSets), Origin: o, Pos: 1}
		case r.Intn(3) == 0:
			return c13named(r, c13ref(nterms+r.Intn(nnts)))
		}
		return c13named(r, c13ref(1+r.Intn(nterms-1)))
	}
	switch r.Intn(7) {
	case 0, 1:
		e := &Expr{Kind: Sequence, Origin: o}
		for i := 0; i < 2+r.Intn(2); i++ {
			e.Sub = append(e.Sub, c13rand(r, depth-1, nterms, nnts, allowSets, lists))
		}
		return e
	case 2:
		e := &Expr{Kind: Choice, Origin: o}
		for i := 0; i < 2+r.Intn(2); i++ {
			e.Sub = append(e.Sub, c13rand(r, depth-1, nterms, nnts, allowSets, lists))
		}
		return e
	case 3:
		return &Expr{Kind: Optional, Origin: o, Sub: []*Expr{c13rand(r, depth-1, nterms, nnts, allowSets, lists)}}
	case 4, 5:
		if !lists {
			return c13ref(1 + r.Intn(nterms-1))
		}
		e := &Expr{Kind: List, Origin: o, Pos: 1, Sub: []*Expr{c13rand(r, depth-1, nterms, nnts, allowSets, false)}}
		switch r.Intn(4) {
		case 0, 1:
			e.Sub = append(e.Sub, c13ref(1+r.Intn(nterms-1)))
		case 2:
			// a separator of two tokens
			e.Sub = append(e.Sub, &Expr{Kind: Sequence, Origin: o, Sub: []*Expr{c13ref(1 + r.Intn(nterms-1)), c13ref(1 + r.Intn(nterms-1))}})
		}
		if r.Intn(2) == 0 {
			e.ListFlags |= OneOrMore
		}
		if r.Intn(3) == 0 {
			e.ListFlags |= RightRecursive
		}
		return e
	default:
		return &Expr{Kind: Arrow, Name: "Node", Origin: o, Sub: []*Expr{c13rand(r, depth-1, nterms, nnts, allowSets, lists)}}
	}
}

func c13model(r *vRand, nsets int) *Model {
	m := &Model{Terminals: []Terminal{{Name: "EOI"}, {Name: "a"}, {Name: "b"}, {Name: "c"}}}
	nn := 2 + r.Intn(2)
	names := []string{"Nx", "Ma", "Zq", "Kb"}
	for i := 0; i < nn; i++ {
		m.Nonterms = append(m.Nonterms, &Nonterm{Name: names[i], Origin: c13node(names[i])})
	}
	for k := 0; k < nsets; k++ {
		m.Sets = append(m.Sets, c13randSet(r, 2, len(m.Terminals), nn))
	}
	for i := 0; i < nn; i++ {
		m.Nonterms[i].Value = c13rand(r, 3, len(m.Terminals), nn, nsets, true)
	}
	for i := 0; i < nn; i++ {
		m.Inputs = append(m.Inputs, Input{Nonterm: i, NoEoi: i == 0 && r.Intn(3) == 0})
	}
	return m
}

func c13randSet(r *vRand, depth, nterms, nnts int) *TokenSet {
	o := c13node("set")
	if depth == 0 || r.Intn(3) == 0 {
		op := []SetOp{Any, First, Last, Precede, Follow}[r.Intn(5)]
		sym := 1 + r.Intn(nterms-1)
		if r.Intn(2) == 0 {
			sym = nterms + r.Intn(nnts)
		}
		if op == Any && sym < nterms || r.Intn(4) == 0 {
			return &TokenSet{Kind: Any, Symbol: 1 + r.Intn(nterms-1), Origin: o}
		}
		return &TokenSet{Kind: op, Symbol: sym, Origin: o}
	}
	switch r.Intn(4) {
	case 0:
		return &TokenSet{Kind: Complement, Origin: o, Sub: []*TokenSet{c13randSet(r, depth-1, nterms, nnts)}}
	case 1:
		return &TokenSet{Kind: Intersection, Origin: o, Sub: []*TokenSet{c13randSet(r, depth-1, nterms, nnts), c13randSet(r, depth-1, nterms, nnts)}}
	}
	return &TokenSet{Kind: Union, Origin: o, Sub: []*TokenSet{c13randSet(r, depth-1, nterms, nnts), c13randSet(r, depth-1, nterms, nnts)}}
}

func c13clone(m *Model) *Model {
	out := &Model{Terminals: m.Terminals, Params: m.Params, Cats: m.Cats, Inputs: append([]Input(nil), m.Inputs...)}
	var ce func(e *Expr) *Expr
	ce = func(e *Expr) *Expr {
		n := *e
		n.Sub = nil
		for _, s := range e.Sub {
			n.Sub = append(n.Sub, ce(s))
		}
		return &n
	}
	var cs func(s *TokenSet) *TokenSet
	cs = func(s *TokenSet) *TokenSet {
		n := *s
		n.Sub = nil
		for _, x := range s.Sub {
			n.Sub = append(n.Sub, cs(x))
		}
		return &n
	}
	for _, nt := range m.Nonterms {
		c := *nt
		c.Value = ce(nt.Value)
		out.Nonterms = append(out.Nonterms, &c)
	}
	_ = cs
	out.Sets = c15cloneSets(m.Sets)
	return out
}

func c13words(nterms, n int) [][]int {
	out := [][]int{{}}
	prev := [][]int{{}}
	for l := 1; l <= n; l++ {
		var cur [][]int
		for _, p := range prev {
			for t := 1; t < nterms; t++ {
				cur = append(cur, append(append([]int(nil), p...), t))
			}
		}
		out = append(out, cur...)
		prev = cur
	}
	return out
}

func c13resolved(m *Model) [][]int {
	var out [][]int
	for _, s := range m.Sets {
		var ts []int
		for _, t := range s.Sub {
			ts = append(ts, t.Symbol)
		}
		out = append(out, ts)
	}
	return out
}

// ---------- C13 ----------

func TestVerifC13(t *testing.T) {
	ck := vNew("C13/expand", "seeded models: 2..3 nonterminals over 3 terminals, expression trees of depth <=3 with optional parts, nested choices, * and + lists (with separator, left- and right-recursive), set(...) references, arrows; all terminal strings of length <=4 (<=5 thorough) from every nonterminal", false,
		"Expand", "expander.expandRule", "expander.extractNonterm", "Model.Rearrange", "concat", "multiConcat", "collapseEmpty")
	r := vNewRand(vSeed() + 53)
	n := 2500
	maxLen := 4
	if vTier() == "thorough" {
		n, maxLen = 60000, 5
	}
	for i := 0; i < n; i++ {
		nsets := 0
		if i%3 == 0 {
			nsets = 1 + r.Intn(2)
		}
		m := c13model(r, nsets)
		pre := c13clone(m)
		desc := c13str(pre)
		var err error
		badRef := ""
		if p := vRecover(func() {
			err = Expand(m, DefaultExpandOptions())
			if err == nil {
				badRef = c13setRefs(pre, m)
				err = ResolveSets(m)
			}
		}); p != "" {
			ck.Case(true)
			ck.Failf(desc, "Expand/ResolveSets panicked: %s", p)
			continue
		}
		if err != nil {
			ck.Case(false)
			continue
		}
		if badRef != "" {
			ck.Case(true)
			ck.Failf(desc, "%s\nexpanded: %s", badRef, c13str(m))
			continue
		}
		sets := c13resolved(m)
		emptySet := false
		for _, s := range sets {
			if len(s) == 0 {
				emptySet = true // set(...) without terminals is degenerate (turned into %empty); excluded
			}
		}
		if emptySet {
			ck.Case(false)
			continue
		}
		ck.Case(true)
		if i < 3 {
			ck.Sample(desc)
		}
		dpre, dpost := newDen(pre, sets), newDen(m, sets)
		words := c13words(len(m.Terminals), maxLen)
		for in := range pre.Inputs {
			a := dpre.ntSym(pre.Inputs[in].Nonterm, nil, nil)
			b := dpost.ntSym(m.Inputs[in].Nonterm, nil, nil)
			bad := false
			for _, w := range words {
				if x, y := dpre.g.accepts(a, w), dpost.g.accepts(b, w); x != y {
					ck.Failf(desc, "nonterminal %s, terminals %v: extended notation derives it = %v, expanded rules derive it = %v\nexpanded: %s", pre.Nonterms[pre.Inputs[in].Nonterm].Name, w, x, y, c13str(m))
					bad = true
					break
				}
			}
			if bad {
				break
			}
		}
	}
	vWrite(t, []string{"set(...) operands are given the terminals computed by ResolveSets (the sets themselves are checked under C15)"}, ck)
}

func c13str(m *Model) string {
	var sb strings.Builder
	for _, nt := range m.Nonterms {
		v := c13clone(m)
		_ = v
		sb.WriteString(nt.Name + ": " + c13expr(m, nt.Value) + "; ")
	}
	ids := map[*TokenSet]int{}
	for i, s := range m.Sets {
		ids[s] = i
	}
	var ss func(s *TokenSet, top bool, depth int) string
	ss = func(s *TokenSet, top bool, depth int) string {
		if id, ok := ids[s]; ok && !top {
			return fmt.Sprintf("set%d", id)
		}
		if depth > 6 {
			return "..."
		}
		name := func(sym int) string {
			if sym < len(m.Terminals) {
				return m.Terminals[sym].Name
			}
			return m.Nonterms[sym-len(m.Terminals)].Name
		}
		switch s.Kind {
		case Any:
			return name(s.Symbol)
		case First:
			return "first " + name(s.Symbol)
		case Last:
			return "last " + name(s.Symbol)
		case Precede:
			return "precede " + name(s.Symbol)
		case Follow:
			return "follow " + name(s.Symbol)
		case Complement:
			return "~(" + ss(s.Sub[0], false, depth+1) + ")"
		}
		var parts []string
		for _, x := range s.Sub {
			parts = append(parts, ss(x, false, depth+1))
		}
		op := " | "
		if s.Kind == Intersection {
			op = " & "
		}
		return "(" + strings.Join(parts, op) + ")"
	}
	for i, s := range m.Sets {
		fmt.Fprintf(&sb, "set%d=%s; ", i, ss(s, true, 0))
	}
	sb.WriteString("inputs:")
	for _, in := range m.Inputs {
		sb.WriteString(" " + m.Nonterms[in.Nonterm].Name)
		if in.NoEoi {
			sb.WriteString("(no-eoi)")
		}
	}
	return sb.String()
}

func c13expr(m *Model, e *Expr) (s string) {
	defer func() {
		if recover() != nil {
			s = fmt.Sprintf("<%v>", e.Kind)
		}
	}()
	c := *e
	var fix func(x *Expr) *Expr
	fix = func(x *Expr) *Expr {
		n := *x
		n.Model = m
		n.Sub = nil
		for _, q := range x.Sub {
			n.Sub = append(n.Sub, fix(q))
		}
		return &n
	}
	return fix(&c).String()
}

// ---------- C15 ----------

// c15sets computes first/last/follow/precede/any at rule level on a plain CFG, restricted to the
// rules reachable from start.
type c15info struct {
	g        *c13cfg
	reach    map[int]bool
	nullable map[int]bool
	memo     map[[2]int]map[int]bool
}

func newC15(g *c13cfg, start int) *c15info {
	c := &c15info{g: g, reach: map[int]bool{}, nullable: map[int]bool{}, memo: map[[2]int]map[int]bool{}}
	stack := []int{start}
	c.reach[start] = true
	for len(stack) > 0 {
		x := stack[len(stack)-1]
		stack = stack[:len(stack)-1]
		for _, alt := range g.rules[x] {
			for _, s := range alt {
				if s >= g.nterm && !c.reach[s] {
					c.reach[s] = true
					stack = append(stack, s)
				}
			}
		}
	}
	for changed := true; changed; {
		changed = false
		for lhs := range c.reach {
			if c.nullable[lhs] {
				continue
			}
			for _, alt := range g.rules[lhs] {
				ok := true
				for _, s := range alt {
					if s < g.nterm || !c.nullable[s] {
						ok = false
					}
				}
				if ok {
					c.nullable[lhs] = true
					changed = true
				}
			}
		}
	}
	return c
}

// all computes the five families by simultaneous fixpoint; key = (op, symbol).
func (c *c15info) all(strict bool) map[[2]int]map[int]bool {
	val := map[[2]int]map[int]bool{}
	get := func(op SetOp, s int) map[int]bool {
		k := [2]int{int(op), s}
		if val[k] == nil {
			val[k] = map[int]bool{}
			if s < c.g.nterm && (op == First || op == Last || op == Any) {
				val[k][s] = true
			}
		}
		return val[k]
	}
	addAll := func(dst, src map[int]bool) bool {
		ch := false
		for t := range src {
			if !dst[t] {
				dst[t] = true
				ch = true
			}
		}
		return ch
	}
	var syms []int
	for s := range c.reach {
		syms = append(syms, s)
	}
	for t := 0; t < c.g.nterm; t++ {
		syms = append(syms, t)
	}
	sort.Ints(syms)
	for changed := true; changed; {
		changed = false
		for _, lhs := range syms {
			if lhs < c.g.nterm {
				continue
			}
			for _, alt := range c.g.rules[lhs] {
				for i, s := range alt {
					changed = addAll(get(Any, lhs), get(Any, s)) || changed
					// first
					pref := true
					for _, p := range alt[:i] {
						if p < c.g.nterm || !c.nullable[p] {
							pref = false
						}
					}
					if pref {
						changed = addAll(get(First, lhs), get(First, s)) || changed
					}
					suf := true
					for _, p := range alt[i+1:] {
						if p < c.g.nterm || !c.nullable[p] {
							suf = false
						}
					}
					if suf {
						changed = addAll(get(Last, lhs), get(Last, s)) || changed
					}
					if !strict && c.g.opaque[lhs] {
						// the implementation does not count terminals reached through set(...) as
						// occurrences for follow/precede (known finding F21)
						continue
					}
					// follow(s): first of what comes after, else follow(lhs)
					scoped := false
					for _, q := range alt[i+1:] {
						changed = addAll(get(Follow, s), get(First, q)) || changed
						if q < c.g.nterm || !c.nullable[q] {
							scoped = true
							break
						}
					}
					if !scoped {
						changed = addAll(get(Follow, s), get(Follow, lhs)) || changed
					}
					scoped = false
					for k := i - 1; k >= 0; k-- {
						q := alt[k]
						changed = addAll(get(Precede, s), get(Last, q)) || changed
						if q < c.g.nterm || !c.nullable[q] {
							scoped = true
							break
						}
					}
					if !scoped {
						changed = addAll(get(Precede, s), get(Precede, lhs)) || changed
					}
				}
			}
		}
	}
	for _, op := range []SetOp{Any, First, Last, Precede, Follow} {
		for _, s := range syms {
			get(op, s)
		}
	}
	return val
}

// c15eval evaluates set expressions (possibly sharing nodes / cyclic) by Kleene iteration;
// errExpected reports a complement on a dependency cycle.
func c15eval(sets []*TokenSet, fam map[[2]int]map[int]bool, symOf func(int) int, nterms int) (vals [][]int, errExpected bool) {
	nodes := []*TokenSet{}
	index := map[*TokenSet]int{}
	var collect func(s *TokenSet)
	collect = func(s *TokenSet) {
		if _, ok := index[s]; ok {
			return
		}
		index[s] = len(nodes)
		nodes = append(nodes, s)
		for _, x := range s.Sub {
			collect(x)
		}
	}
	for _, s := range sets {
		collect(s)
	}
	// complement on a cycle?
	for _, nd := range nodes {
		if nd.Kind != Complement {
			continue
		}
		seen := map[*TokenSet]bool{}
		var dfs func(s *TokenSet) bool
		dfs = func(s *TokenSet) bool {
			for _, x := range s.Sub {
				if x == nd {
					return true
				}
				if !seen[x] {
					seen[x] = true
					if dfs(x) {
						return true
					}
				}
			}
			return false
		}
		if dfs(nd) {
			return nil, true
		}
	}
	val := make([]map[int]bool, len(nodes))
	for i := range val {
		val[i] = map[int]bool{}
	}
	compute := func(nd *TokenSet) map[int]bool {
		out := map[int]bool{}
		switch nd.Kind {
		case Any, First, Last, Precede, Follow:
			for t := range fam[[2]int{int(nd.Kind), symOf(nd.Symbol)}] {
				out[t] = true
			}
		case Union:
			for _, x := range nd.Sub {
				for t := range val[index[x]] {
					out[t] = true
				}
			}
		case Intersection:
			for t := 0; t < nterms; t++ {
				all := true
				for _, x := range nd.Sub {
					if !val[index[x]][t] {
						all = false
					}
				}
				if all {
					out[t] = true
				}
			}
		case Complement:
			for t := 0; t < nterms; t++ {
				if !val[index[nd.Sub[0]]][t] {
					out[t] = true
				}
			}
		}
		return out
	}
	// stratified evaluation: strongly connected components in dependency order (Tarjan), a least
	// fixpoint inside each component (complements are never inside a cyclic component here)
	idx := make([]int, len(nodes))
	low := make([]int, len(nodes))
	on := make([]bool, len(nodes))
	for i := range idx {
		idx[i] = -1
	}
	var stack []int
	counter := 0
	var comps [][]int
	var sc func(v int)
	sc = func(v int) {
		idx[v], low[v] = counter, counter
		counter++
		stack = append(stack, v)
		on[v] = true
		for _, x := range nodes[v].Sub {
			w := index[x]
			if idx[w] == -1 {
				sc(w)
				if low[w] < low[v] {
					low[v] = low[w]
				}
			} else if on[w] && idx[w] < low[v] {
				low[v] = idx[w]
			}
		}
		if low[v] == idx[v] {
			var comp []int
			for {
				w := stack[len(stack)-1]
				stack = stack[:len(stack)-1]
				on[w] = false
				comp = append(comp, w)
				if w == v {
					break
				}
			}
			comps = append(comps, comp)
		}
	}
	for v := range nodes {
		if idx[v] == -1 {
			sc(v)
		}
	}
	for _, comp := range comps { // Tarjan emits dependencies first
		for changed := true; changed; {
			changed = false
			for _, v := range comp {
				nv := compute(nodes[v])
				if len(nv) != len(val[v]) {
					changed = true
				}
				val[v] = nv
			}
		}
	}
	for _, s := range sets {
		var ts []int
		for t := range val[index[s]] {
			ts = append(ts, t)
		}
		sort.Ints(ts)
		vals = append(vals, ts)
	}
	return vals, false
}

func TestVerifC15(t *testing.T) {
	ck := vNew("C15/token-sets", "seeded models (2..3 nonterminals over 3 terminals, trees of depth <=3 incl. lists/optionals, first input eoi or no-eoi) with 2..4 set expressions of depth <=2 over first/last/follow/precede/any, union, intersection, complement, shared and mutually recursive named sets, and set(...) used inside rules", false,
		"ResolveSets", "rules", "Nullable", "oneRule.accept", "Expand", "Model.Rearrange")
	kf := vNew("C15/follow-through-set", "same models; only the class of known finding F21 (follow/precede of symbols that occur through set(...) used inside a rule)", false, "ResolveSets")
	kfSeen := false
	r := vNewRand(vSeed() + 59)
	n := 3000
	if vTier() == "thorough" {
		n = 80000
	}
	for i := 0; i < n; i++ {
		m := c13model(r, 0)
		nt := len(m.Terminals)
		nn := len(m.Nonterms)
		// set 0: grammar-independent, may be used inside rules
		s0 := &TokenSet{Kind: Union, Origin: c13node("s0"), Sub: []*TokenSet{{Kind: Any, Symbol: 1 + r.Intn(nt-1), Origin: c13node("s")}, {Kind: Any, Symbol: 1 + r.Intn(nt-1), Origin: c13node("s")}}}
		m.Sets = []*TokenSet{s0}
		for k := 0; k < 1+r.Intn(3); k++ {
			s := c13randSet(r, 2, nt, nn)
			// sometimes refer to another named set (sharing the node), possibly forming a cycle
			if r.Intn(3) == 0 {
				ref := m.Sets[r.Intn(len(m.Sets))]
				if r.Intn(3) == 0 {
					// the reference sits under an intersection with a broad set (ref & ~t): cycles through
					// such a node take the iterative path of the closure, which may need several passes
					// (seeded change C15-r14m2 stopped as soon as the last node of the component was stable)
					ref = &TokenSet{Kind: Intersection, Origin: c13node("i"), Sub: []*TokenSet{ref, {Kind: Complement, Origin: c13node("c"), Sub: []*TokenSet{{Kind: Any, Symbol: 1 + r.Intn(nt-1), Origin: c13node("s")}}}}}
				}
				s = &TokenSet{Kind: Union, Origin: c13node("u"), Sub: []*TokenSet{s, ref}}
			}
			m.Sets = append(m.Sets, s)
		}
		if len(m.Sets) > 2 && r.Intn(4) == 0 {
			// back reference: set1 also includes the last set (cycle through unions, or through a complement)
			last := m.Sets[len(m.Sets)-1]
			switch r.Intn(4) {
			case 0:
				last = &TokenSet{Kind: Complement, Origin: c13node("c"), Sub: []*TokenSet{last}}
			case 1:
				last = &TokenSet{Kind: Intersection, Origin: c13node("i"), Sub: []*TokenSet{last, {Kind: Complement, Origin: c13node("c"), Sub: []*TokenSet{{Kind: Any, Symbol: 1 + r.Intn(nt-1), Origin: c13node("s")}}}}}
			}
			if m.Sets[1].Kind == Union {
				m.Sets[1].Sub = append(m.Sets[1].Sub, last)
			}
		}
		if r.Intn(2) == 0 {
			// use set 0 inside a rule
			k := r.Intn(nn)
			m.Nonterms[k].Value = &Expr{Kind: Sequence, Origin: c13node("q"), Sub: []*Expr{m.Nonterms[k].Value, {Kind: Set, SetIndex: 0, Origin: c13node("q"), Pos: 2}}}
			if r.Intn(2) == 0 {
				m.Nonterms[k].Value.Sub[0], m.Nonterms[k].Value.Sub[1] = m.Nonterms[k].Value.Sub[1], m.Nonterms[k].Value.Sub[0]
			}
		}
		pre := c13clone(m)
		// the clone must share set nodes the same way: rebuild sharing by cloning sets jointly
		pre.Sets = c15cloneSets(m.Sets)
		desc := c13str(pre)
		var err error
		if p := vRecover(func() {
			err = Expand(m, DefaultExpandOptions())
			if err == nil {
				err = ResolveSets(m)
			}
		}); p != "" {
			ck.Case(true)
			ck.Failf(desc, "Expand/ResolveSets panicked: %s", p)
			continue
		}
		// reference
		var s0vals []int
		for _, x := range s0.Sub {
			if len(s0vals) == 0 || s0vals[0] != x.Symbol {
				s0vals = append(s0vals, x.Symbol)
			}
		}
		sets := make([][]int, len(pre.Sets))
		sets[0] = s0vals
		d := newDen(pre, sets)
		start := -1
		for _, in := range pre.Inputs {
			if !in.NoEoi {
				start = d.ntSym(in.Nonterm, nil, nil)
				break
			}
		}
		if start < 0 {
			ck.Case(false)
			continue
		}
		for k := range pre.Nonterms {
			d.ntSym(k, nil, nil)
		}
		info := newC15(d.g, start)
		fam := info.all(true)
		want, errExpected := c15eval(pre.Sets, fam, func(sym int) int { return sym }, nt)
		loose, _ := c15eval(pre.Sets, info.all(false), func(sym int) int { return sym }, nt)
		ck.Case(true)
		if i < 3 {
			ck.Sample(desc)
		}
		if errExpected != (err != nil) {
			ck.Failf(desc, "a complement depends on itself = %v, ResolveSets error = %v", errExpected, err)
			continue
		}
		if err != nil {
			continue
		}
		got := c13resolved(m)
		for k := range want {
			if fmt.Sprint(got[k]) != fmt.Sprint(want[k]) && !(len(got[k]) == 0 && len(want[k]) == 0) {
				if fmt.Sprint(got[k]) == fmt.Sprint(loose[k]) || len(got[k]) == 0 && len(loose[k]) == 0 {
					if !kfSeen {
						kfSeen = true
						kf.Failf(desc, "set%d resolves to terminals %v, the rules give %v: follow/precede do not see symbols that occur through set(...) inside a rule", k, got[k], want[k])
					}
					break
				}
				ck.Failf(desc, "set%d resolves to terminals %v, its definition over the rules reachable from the first eoi input gives %v", k, got[k], want[k])
				break
			}
		}
	}
	kf.Cases, kf.Nontrivial = ck.Cases, ck.Nontrivial
	vWrite(t, []string{"reference: rule-level first/last/follow/precede/any computed by naive fixpoint on an independently derived plain grammar; complement over the terminals [0, T)"}, ck, kf)
}

func c15cloneSets(sets []*TokenSet) []*TokenSet {
	memo := map[*TokenSet]*TokenSet{}
	var cl func(s *TokenSet) *TokenSet
	cl = func(s *TokenSet) *TokenSet {
		if c, ok := memo[s]; ok {
			return c
		}
		n := *s
		n.Sub = nil
		memo[s] = &n
		for _, x := range s.Sub {
			n.Sub = append(n.Sub, cl(x))
		}
		return &n
	}
	var out []*TokenSet
	for _, s := range sets {
		out = append(out, cl(s))
	}
	return out
}

// c13setRefs checks that set operands still name the nonterminals they named before the expansion
// (Expand renumbers nonterminals when it moves extracted ones next to their first use).
func c13setRefs(pre, m *Model) string {
	nt := len(pre.Terminals)
	var cmp func(a, b *TokenSet, depth int) string
	cmp = func(a, b *TokenSet, depth int) string {
		if a.Kind != b.Kind || len(a.Sub) != len(b.Sub) || depth > 8 {
			return ""
		}
		if len(a.Sub) == 0 {
			switch {
			case a.Symbol < nt && b.Symbol != a.Symbol:
				return fmt.Sprintf("a set operand over terminal %d refers to symbol %d after the expansion", a.Symbol, b.Symbol)
			case a.Symbol >= nt && (b.Symbol < nt || b.Symbol-nt >= len(m.Nonterms) || m.Nonterms[b.Symbol-nt].Name != pre.Nonterms[a.Symbol-nt].Name):
				got := "a terminal"
				if b.Symbol >= nt && b.Symbol-nt < len(m.Nonterms) {
					got = m.Nonterms[b.Symbol-nt].Name
				}
				return fmt.Sprintf("a set operand over nonterminal %s refers to %s after the expansion", pre.Nonterms[a.Symbol-nt].Name, got)
			}
			return ""
		}
		for i := range a.Sub {
			if s := cmp(a.Sub[i], b.Sub[i], depth+1); s != "" {
				return s
			}
		}
		return ""
	}
	for k := range pre.Sets {
		if k < len(m.Sets) {
			if s := cmp(pre.Sets[k], m.Sets[k], 0); s != "" {
				return s
			}
		}
	}
	return ""
}
