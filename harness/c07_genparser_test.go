package gen

// C07 (bounded, on generated code): parsers GENERATED for grammars that need multi-token lookahead
// (lalr(k), k >= 2) accept exactly the language of the grammar.
//
// The table-level harness (lalr package) interprets the lookahead tries itself; the code that walks
// them at run time is template text (go_parser.go.tmpl: resolveDeepLA, lookaheadNext, the Copy() of
// the lexer or token stream) and exists only in generated parsers. Here the real pipeline generates
// a parser package per grammar, with and without tokenStream, one driver is built for all of them
// and every token string up to the length of the longest sentence + 1 is parsed: the parser has to
// accept exactly the (finite) set of sentences.
//
// Grammar family (reduce/reduce between A and B after 'e', decided m+2 tokens ahead, m = 1..2):
//   input : A p.. d1 'x' | B p.. d2 'x' | 'x' A p.. d2 d2 | 'x' B p.. d1 d1 ;  A : 'e' ;  B : 'e' ;
// with p.. a common prefix of m tokens over {a,b,c} and d1 != d2.

import (
	"context"
	"encoding/json"
	"fmt"
	"os"
	"os/exec"
	"path/filepath"
	"strings"
	"testing"
	"time"
)

type g07Grammar struct {
	idx         int
	tokenStream bool
	k           int
	sentences   []string
	maxLen      int
	text        string
}

type g07DirWriter struct{ dir string }

func (w g07DirWriter) Write(filename, content string) error {
	p := filepath.Join(w.dir, filename)
	if err := os.MkdirAll(filepath.Dir(p), 0o755); err != nil {
		return err
	}
	return os.WriteFile(p, []byte(content), 0o644)
}

var g07Alphabet = []string{"e", "a", "b", "c", "x"}

func g07Gen(r *vRand, idx int) *g07Grammar {
	g := &g07Grammar{idx: idx, tokenStream: idx%2 == 0}
	m := 1 + (idx/2)%2
	// A: e and B: e share one LALR state for both contexts, so the decision needs the common prefix,
	// the differing token and the token after it
	g.k = m + 2
	abc := []string{"a", "b", "c"}
	var prefix []string
	for i := 0; i < m; i++ {
		prefix = append(prefix, abc[r.Intn(3)])
	}
	d1 := r.Intn(3)
	d2 := (d1 + 1 + r.Intn(2)) % 3
	alts := [][]string{
		append(append([]string{"A"}, prefix...), abc[d1], "x"),
		append(append([]string{"B"}, prefix...), abc[d2], "x"),
		append(append([]string{"x", "A"}, prefix...), abc[d2], abc[d2]),
		append(append([]string{"x", "B"}, prefix...), abc[d1], abc[d1]),
	}
	var rhs []string
	for _, a := range alts {
		var syms, toks []string
		for _, s := range a {
			if s == "A" || s == "B" {
				syms = append(syms, s)
				toks = append(toks, "e")
			} else {
				syms = append(syms, "'"+s+"'")
				toks = append(toks, s)
			}
		}
		rhs = append(rhs, strings.Join(syms, " "))
		g.sentences = append(g.sentences, strings.Join(toks, " "))
		if len(toks) > g.maxLen {
			g.maxLen = len(toks)
		}
	}
	var sb strings.Builder
	fmt.Fprintf(&sb, "language q%d(go);\n\nlang = \"q%d\"\npackage = \"vmod/q%d\"\neventBased = true\n", idx, idx, idx)
	if g.tokenStream {
		sb.WriteString("tokenStream = true\n")
	}
	sb.WriteString("\n:: lexer\n\nWhiteSpace: /[\\n\\r\\x20\\t]+/ (space)\n\n")
	for _, t := range g07Alphabet {
		fmt.Fprintf(&sb, "'%s': /%s/\n", t, t)
	}
	// the declared k is the needed one or larger
	fmt.Fprintf(&sb, "\n:: parser lalr(%d)\n\ninput : %s ;\nA : 'e' ;\nB : 'e' ;\n", g.k+idx%3%2, strings.Join(rhs, " | "))
	g.text = sb.String()
	return g
}

const g07DriverHead = `package main

import (
	"encoding/json"
	"fmt"
	"os"
%s
)

var runners = map[int]func(string) bool{}

func safe(f func(string) bool, src string) (out string) {
	defer func() {
		if r := recover(); r != nil {
			out = fmt.Sprint("PANIC: ", r)
		}
	}()
	if f(src) {
		return "accept"
	}
	return "reject"
}

// every token string over the alphabet up to the given length, in a fixed order
func enumerate(alphabet []string, maxLen int, f func(string)) {
	var rec func(prefix string, n int)
	rec = func(prefix string, n int) {
		f(prefix)
		if n == maxLen {
			return
		}
		for _, tok := range alphabet {
			next := tok
			if prefix != "" {
				next = prefix + " " + tok
			}
			rec(next, n+1)
		}
	}
	rec("", 0)
}

func main() {
	var in struct {
		Alphabet []string
		MaxLen   map[int]int
		Want     map[int][]string
	}
	if err := json.NewDecoder(os.Stdin).Decode(&in); err != nil {
		fmt.Fprintln(os.Stderr, err)
		os.Exit(2)
	}
	type res struct {
		Cases int
		Bad   []string
	}
	out := map[int]*res{}
	for g, ml := range in.MaxLen {
		want := map[string]bool{}
		for _, s := range in.Want[g] {
			want[s] = true
		}
		rs := &res{}
		out[g] = rs
		enumerate(in.Alphabet, ml, func(src string) {
			rs.Cases++
			got := safe(runners[g], src)
			exp := "reject"
			if want[src] {
				exp = "accept"
			}
			if got != exp && len(rs.Bad) < 5 {
				rs.Bad = append(rs.Bad, fmt.Sprintf("%%q: generated parser: %%s, grammar: %%s", src, got, exp))
			}
		})
	}
	json.NewEncoder(os.Stdout).Encode(out)
}
`

const g07RunnerStream = `
func init() {
	runners[%[1]d] = func(src string) bool {
		var s q%[1]d.TokenStream
		s.Init(src, func(t q%[1]d.NodeType, offset, endoffset int) {})
		var p q%[1]d.Parser
		p.Init(func(t q%[1]d.NodeType, offset, endoffset int) {})
		return p.Parse(&s) == nil
	}
}
`

const g07RunnerLexer = `
func init() {
	runners[%[1]d] = func(src string) bool {
		var l q%[1]d.Lexer
		l.Init(src)
		var p q%[1]d.Parser
		p.Init(func(t q%[1]d.NodeType, offset, endoffset int) {})
		return p.Parse(&l) == nil
	}
}
`

func TestVerifC07Generated(t *testing.T) {
	ck := vNew("C07/generated-parsers", "seeded grammars 'input: A p.. d1 x | B p.. d2 x | x A p.. d2 d2 | x B p.. d1 d1; A: e; B: e' (common prefix of 1..2 tokens, lalr(3..5)), generated with and without tokenStream; every token string over {e,a,b,c,x} up to the longest sentence + 1", false,
		"GenerateFile", "go_parser.go.tmpl:resolveDeepLA", "go_parser.go.tmpl:lookaheadNext", "go_stream.go.tmpl:Copy", "compiler.resolveWithLookahead")
	base := os.Getenv("VERIF_TMP")
	if base == "" {
		base = os.TempDir()
	}
	dir, err := os.MkdirTemp(base, "c07mod")
	if err != nil {
		t.Fatal(err)
	}
	defer os.RemoveAll(dir)
	r := vNewRand(vSeed() + 707)
	ng := 8
	if vTier() == "thorough" {
		ng = 48
	}
	var gs []*g07Grammar
	rejected := 0
	for i := 0; i < ng; i++ {
		g := g07Gen(r, i)
		w := g07DirWriter{filepath.Join(dir, fmt.Sprintf("q%d", i))}
		w.Write(fmt.Sprintf("q%d.tm", i), g.text)
		var gerr error
		pmsg := vRecover(func() {
			_, gerr = GenerateFile(context.Background(), filepath.Join(w.dir, fmt.Sprintf("q%d.tm", i)), w, Options{})
		})
		if pmsg != "" {
			ck.Case(true)
			ck.Failf(g.text, "generation panicked: %s", pmsg)
			os.RemoveAll(w.dir)
			continue
		}
		if gerr != nil {
			// a rejected grammar is not a case of this property (nothing is generated for it)
			ck.Case(false)
			rejected++
			os.RemoveAll(w.dir)
			continue
		}
		gs = append(gs, g)
	}
	ck.Samples = append(ck.Samples, fmt.Sprintf("rejected by the compiler: %d of %d", rejected, ng))
	if len(gs) < ng/2 {
		ck.Failf(nil, "only %d of the %d drawn grammars compiled: the harness explores too little", len(gs), ng)
		vWrite(t, nil, ck)
		return
	}
	var imports, runners strings.Builder
	in := struct {
		Alphabet []string
		MaxLen   map[int]int
		Want     map[int][]string
	}{g07Alphabet, map[int]int{}, map[int][]string{}}
	for _, g := range gs {
		fmt.Fprintf(&imports, "\tq%[1]d \"vmod/q%[1]d\"\n", g.idx)
		if g.tokenStream {
			fmt.Fprintf(&runners, g07RunnerStream, g.idx)
		} else {
			fmt.Fprintf(&runners, g07RunnerLexer, g.idx)
		}
		in.MaxLen[g.idx] = g.maxLen + 1
		in.Want[g.idx] = g.sentences
	}
	top := g07DirWriter{dir}
	top.Write("go.mod", "module vmod\n\ngo 1.20\n")
	top.Write("cmd/drv/main.go", fmt.Sprintf(g07DriverHead, imports.String())+runners.String())
	env := append(os.Environ(), "GOFLAGS=-mod=mod", "GOPROXY=off", "GOSUMDB=off", "GOTOOLCHAIN=local", "GOWORK=off")
	build := exec.Command("go", "build", "-o", filepath.Join(dir, "drv"), "./cmd/drv")
	build.Dir = dir
	build.Env = env
	if out, err := build.CombinedOutput(); err != nil {
		ck.Case(true)
		ck.Failf(nil, "the generated parsers do not build: %s", strings.TrimSpace(string(out)))
		vWrite(t, nil, ck)
		return
	}
	ctx, cancel := context.WithTimeout(context.Background(), 5*time.Minute)
	defer cancel()
	run := exec.CommandContext(ctx, filepath.Join(dir, "drv"))
	data, _ := json.Marshal(in)
	run.Stdin = strings.NewReader(string(data))
	run.Stderr = os.Stderr
	outData, err := run.Output()
	if err != nil {
		ck.Case(true)
		ck.Failf(nil, "the driver running the generated parsers failed or did not finish: %v", err)
		vWrite(t, nil, ck)
		return
	}
	var got map[int]*struct {
		Cases int
		Bad   []string
	}
	if err := json.Unmarshal(outData, &got); err != nil {
		t.Fatal(err)
	}
	for gi, g := range gs {
		res := got[g.idx]
		if res == nil {
			ck.Case(true)
			ck.Failf(g.text, "no result for grammar q%d", g.idx)
			continue
		}
		ck.mu.Lock()
		ck.Cases += res.Cases
		ck.Nontrivial += res.Cases
		ck.mu.Unlock()
		if len(res.Bad) > 0 {
			ck.Failf(map[string]interface{}{"grammar": g.text, "inputs": res.Bad}, "generated parser (tokenStream=%v, decision %d tokens ahead) does not accept exactly the sentences %q: %s", g.tokenStream, g.k, g.sentences, res.Bad[0])
		}
		if gi < 2 {
			ck.Sample(strings.ReplaceAll(g.text[strings.Index(g.text, ":: parser"):], "\n", " ") + fmt.Sprintf(" tokenStream=%v", g.tokenStream))
		}
	}
	vWrite(t, []string{"the language of each grammar of the family is finite and listed by construction (the four alternatives with A, B replaced by 'e'); acceptance = Parse returns nil"}, ck)
}
