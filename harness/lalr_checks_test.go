package lalr

// Bounded executable contracts of lalr.Compile / Optimize / minimize (C01, C03, C04, C05, C06, C07).

import (
	"fmt"
	"sort"
	"testing"

	"github.com/inspirer/textmapper/status"
)

func (n hNode) SourceRange() status.SourceRange { return status.SourceRange{Filename: string(n)} }

func hCompile(g *Grammar, opts Options) (t *Tables, err error, pmsg string) {
	pmsg = vRecover(func() { t, err = Compile(g, opts) })
	return
}

func hCount(quick, thorough int) int {
	if vTier() == "thorough" {
		return thorough
	}
	return quick
}

// ---------- C01 ----------

func TestVerifC01(t *testing.T) {
	ck := vNew("C01/language", "seeded random grammars (<=3 nonterminals, <=3 terminals, <=6 rules of length <=3; multiple inputs, no-eoi inputs, empty rules, state markers), all token strings of length <=5 (<=6 thorough), options {plain, optimize, optimize+defaultReduce, minimize, minimize+optimize}", false,
		"Compile", "compiler.computeStates", "compiler.buildLA", "compiler.populateTables", "Optimize", "minimize")
	kf17 := vNew("C01/language-minimize-final-states", "same grammars and strings; only the class 'the minimized parser stops early because a final state was merged, while the same options without minimizeDFA agree with the grammar' (known finding F17)", false, "minimize")
	r := vNewRand(vSeed())
	n := hCount(1500, 40000)
	maxLen := hCount(5, 6)
	optSets := []Options{{}, {Optimize: true}, {Optimize: true, DefaultReduce: true}, {MinimizeDFA: true}, {MinimizeDFA: true, Optimize: true}}
	for i := 0; i < n; i++ {
		hg := hRandGrammar(r, 3, 3, 6, 3, hGenOpts{markers: i%3 == 0, noEoi: true, multiInput: true})
		if i == 0 {
			// directed: the conflict-free grammar on which the thorough tier first showed F17 through this
			// check (A: B | a .m1 ; B: A .m1 A c ; inputs A and B(no-eoi)), so that both tiers report it
			hg = &hGrammar{nt: 4, nn: 2, marks: []string{"m0", "m1"},
				rules: []Rule{
					{LHS: 4, RHS: []Sym{5}},
					{LHS: 5, RHS: []Sym{4, Marker(1), 4, 3}},
					{LHS: 4, RHS: []Sym{1, Marker(1)}}},
				inputs: []Input{{Nonterminal: 4, Eoi: true}, {Nonterminal: 5, Eoi: false}}}
		}
		if i == 1 {
			// directed: a left-recursive eoi input whose accepting state needs lookahead (A: A B c | a ; B: ),
			// so the shift of EOI into the last state of the automaton comes out of a non-LR(0) state -
			// the one entry a wrong "undefined" sentinel of defaultReduce overwrites (seeded change C01-r14m1)
			hg = &hGrammar{nt: 4, nn: 2,
				rules: []Rule{
					{LHS: 4, RHS: []Sym{4, 5, 3}},
					{LHS: 4, RHS: []Sym{1}},
					{LHS: 5, RHS: nil}},
				inputs: []Input{{Nonterminal: 4, Eoi: true}}}
		}
		g := hg.build()
		first, err, pmsg := hCompile(g, Options{})
		if pmsg != "" {
			ck.Case(true)
			ck.Failf(hg.String(), "Compile panicked: %s", pmsg)
			continue
		}
		if err != nil {
			ck.Case(false) // conflicts: outside the property's precondition
			continue
		}
		_ = first
		ck.Case(true)
		if i < 400 {
			ck.Sample(hg.String())
		}
		strs := hStrings(hg.nt, maxLen)
	optLoop:
		for _, o := range optSets {
			tb, err, pmsg := hCompile(hg.build(), o)
			if pmsg != "" || err != nil {
				ck.Failf(hg.String(), "Compile with %+v: err=%v panic=%s", o, err, pmsg)
				break
			}
			for in, inp := range hg.inputs {
				e := newEarley(hg, inp.Nonterminal)
				for _, w := range strs {
					wantAcc, wantErr := hExpect(e, inp, w)
					tr := tb.hRun(g, in, w, hRunOpts{optimized: o.Optimize})
					if tr.bad != "" {
						ck.Failf(hg.String(), "opts %+v input %d tokens %q: %s", o, in, hStr(w), tr.bad)
						break optLoop
					}
					if tr.accept != wantAcc {
						if o.MinimizeDFA && tr.accept {
							// Known finding F17 (recorded under C06): minimizeDFA merges the final state of an
							// input with a bisimilar ordinary state, so the minimized parser stops early. It is
							// that defect, and not another one, exactly when the same options without
							// minimizeDFA agree with the grammar and the minimized run is a prefix of that run.
							po := o
							po.MinimizeDFA = false
							if ptb, perr, pp := hCompile(hg.build(), po); pp == "" && perr == nil {
								a := ptb.hRun(g, in, w, hRunOpts{optimized: o.Optimize})
								prefix := len(tr.events) <= len(a.events) && fmt.Sprint(a.events[:len(tr.events)]) == fmt.Sprint(tr.events)
								if a.bad == "" && a.accept == wantAcc && prefix {
									kf17.Case(true)
									if kf17.NFail == 0 {
										kf17.Failf(hg.String(), "opts %+v input %d tokens %q: parser accepts=%v, grammar says %v; without minimizeDFA the parser agrees with the grammar [the minimized parser stops early with the same actions: minimizeDFA merged a final state with another state]", o, in, hStr(w), tr.accept, wantAcc)
									}
									continue
								}
							}
						}
						ck.Failf(hg.String(), "opts %+v input %d tokens %q: parser accepts=%v, grammar says %v", o, in, hStr(w), tr.accept, wantAcc)
						break optLoop
					}
					if !tr.accept && tr.errAt != wantErr {
						ck.Failf(hg.String(), "opts %+v input %d tokens %q: error reported at token %d, first offending token is %d", o, in, hStr(w), tr.errAt, wantErr)
						break optLoop
					}
				}
			}
		}
	}
	// A structured family the random generator rarely draws: the input nonterminal S also starts a
	// rule (A: S x y) that is reached both from the initial state and after a prefix (S: t A t'), so
	// the state entered on S from the initial state has the same core as a state entered on S
	// elsewhere; only the former may accept.
	fam := vNew("C01/input-nonterminal-reused", "grammars S: A x x | y A y | z ; A: S u v over 2 terminals (all choices of x, y, z, u, v), all token strings of length <=6, options {plain, optimize, minimize}", true,
		"Compile", "compiler.computeStates", "compiler.addShift")
	for code := 0; code < 32; code++ {
		tsym := func(bit uint) Sym { return Sym(1 + (code>>bit)&1) }
		hg := &hGrammar{nt: 3, nn: 2, inputs: []Input{{Nonterminal: 3, Eoi: true}}}
		hg.rules = []Rule{{LHS: 3, RHS: []Sym{4, tsym(0), tsym(0)}}, {LHS: 3, RHS: []Sym{tsym(1), 4, tsym(1)}}, {LHS: 3, RHS: []Sym{tsym(2)}}, {LHS: 4, RHS: []Sym{3, tsym(3), tsym(4)}}}
		g := hg.build()
		if _, err, pmsg := hCompile(g, Options{}); err != nil || pmsg != "" {
			fam.Case(false)
			continue
		}
		fam.Case(true)
		if code < 2 {
			fam.Sample(hg.String())
		}
		e := newEarley(hg, hg.inputs[0].Nonterminal)
	famOpts:
		for _, o := range []Options{{}, {Optimize: true}, {MinimizeDFA: true}} {
			tb, err, pmsg := hCompile(hg.build(), o)
			if pmsg != "" || err != nil {
				fam.Failf(hg.String(), "Compile with %+v: err=%v panic=%s", o, err, pmsg)
				break
			}
			for _, w := range hStrings(hg.nt, 6) {
				wantAcc, _ := hExpect(e, hg.inputs[0], w)
				tr := tb.hRun(g, 0, w, hRunOpts{optimized: o.Optimize})
				if tr.bad != "" || tr.accept != wantAcc {
					fam.Failf(hg.String(), "opts %+v tokens %q: parser accepts=%v (%s), grammar says %v", o, hStr(w), tr.accept, tr.bad, wantAcc)
					break famOpts
				}
			}
		}
	}
	// Nonterminals that are nullable only through rules carrying a state marker (markers consume
	// nothing): reductions in front of them get their lookahead by looking through them.
	mk := vNew("C01/nullable-through-markers", "grammar shapes S: [t] X M u | [t] v ; X: %empty ; M: .m0 [P] ; P: %empty  and  S: t A u ; A: B M ; B: v | v w ; M: .m0 over 3 terminals (all choices of t, u, v, w), all token strings of length <=5, options {plain, optimize, minimize}", true,
		"Compile", "compiler.computeEmpty", "compiler.buildLA")
	for code := 0; code < 3*3*3*3*4; code++ {
		tsym := func(k int) Sym {
			v := code
			for i := 0; i < k; i++ {
				v /= 3
			}
			return Sym(1 + v%3)
		}
		shape := code / 81
		S, X, M, P := Sym(4), Sym(5), Sym(6), Sym(7)
		hg := &hGrammar{nt: 4, nn: 3, inputs: []Input{{Nonterminal: S, Eoi: true}}, marks: []string{"m0"}}
		switch shape {
		case 0:
			hg.rules = []Rule{{LHS: S, RHS: []Sym{X, M, tsym(0)}}, {LHS: S, RHS: []Sym{tsym(1)}}, {LHS: X, RHS: nil}, {LHS: M, RHS: []Sym{Marker(0)}}}
		case 1:
			hg.rules = []Rule{{LHS: S, RHS: []Sym{tsym(2), X, M, tsym(0)}}, {LHS: S, RHS: []Sym{tsym(2), tsym(1)}}, {LHS: X, RHS: nil}, {LHS: M, RHS: []Sym{Marker(0)}}}
		case 2:
			hg.nn = 4
			hg.rules = []Rule{{LHS: S, RHS: []Sym{X, M, tsym(0)}}, {LHS: S, RHS: []Sym{tsym(1)}}, {LHS: X, RHS: nil}, {LHS: M, RHS: []Sym{Marker(0), P}}, {LHS: P, RHS: nil}}
		default:
			// S: t A u ; A: B M ; B: v | v w ; M: .m0   (X plays A, P plays B)
			hg.nn = 4
			hg.rules = []Rule{{LHS: S, RHS: []Sym{tsym(2), X, tsym(0)}}, {LHS: X, RHS: []Sym{P, M}}, {LHS: P, RHS: []Sym{tsym(1)}}, {LHS: P, RHS: []Sym{tsym(1), tsym(3)}}, {LHS: M, RHS: []Sym{Marker(0)}}}
		}
		g := hg.build()
		if _, err, pmsg := hCompile(g, Options{}); err != nil || pmsg != "" {
			mk.Case(false)
			continue
		}
		mk.Case(true)
		if code%81 == 0 {
			mk.Sample(hg.String())
		}
		e := newEarley(hg, hg.inputs[0].Nonterminal)
	mkOpts:
		for _, o := range []Options{{}, {Optimize: true}, {MinimizeDFA: true}} {
			tb, err, pmsg := hCompile(hg.build(), o)
			if pmsg != "" || err != nil {
				mk.Failf(hg.String(), "Compile with %+v: err=%v panic=%s", o, err, pmsg)
				break
			}
			for _, w := range hStrings(hg.nt, 5) {
				wantAcc, wantErr := hExpect(e, hg.inputs[0], w)
				tr := tb.hRun(g, 0, w, hRunOpts{optimized: o.Optimize})
				if tr.bad != "" || tr.accept != wantAcc || !tr.accept && tr.errAt != wantErr {
					mk.Failf(hg.String(), "opts %+v tokens %q: parser accepts=%v (error at %d) %s, grammar says %v (first offending token %d)", o, hStr(w), tr.accept, tr.errAt, tr.bad, wantAcc, wantErr)
					break mkOpts
				}
			}
		}
	}
	vWrite(t, []string{"the table interpreter is a hand transcription of parse/lalr/gotoState in go_parser.go.tmpl", "language oracle: Earley recogniser over grammars whose nonterminals are all productive and reachable"}, ck, kf17, fam, mk)
}

// ---------- C03 ----------

// hTableAction decodes the default encoding: returns kind ('s','r','e') and the rule.
func (t *Tables) hTableAction(state, term int) (byte, int) {
	act := t.Action[state]
	if act < -2 {
		a := -act - 3
		for ; t.Lalr[a] >= 0; a += 2 {
			if t.Lalr[a] == term {
				break
			}
		}
		act = t.Lalr[a+1]
	}
	switch {
	case act >= 0:
		return 'r', act
	case act == -1:
		if t.gotoState(state, term) >= 0 {
			return 's', t.gotoState(state, term)
		}
		return 'e', 0
	case act < -2:
		return 'k', act // deeper lookahead
	}
	return 'e', 0
}

type hCell struct {
	shift   bool
	reduces []int
}

// hRefCells computes, for each reference state mapped to table state, the LALR(1) action sets.
func hRefCells(ref *refLALR, s *refState) (cells []hCell, lr0 bool, nred int) {
	g := ref.g
	reds := ref.reduces(s)
	cells = make([]hCell, g.nt)
	hasTermShift := false
	for sym := range s.trans {
		if sym < g.nt {
			cells[sym].shift = true
			hasTermShift = true
		}
	}
	var rules []int
	for rule := range reds {
		rules = append(rules, rule)
	}
	sort.Ints(rules)
	for _, rule := range rules {
		for la := range reds[rule] {
			cells[la].reduces = append(cells[la].reduces, rule)
		}
	}
	nred = len(rules)
	lr0 = nred == 0 || nred == 1 && !hasTermShift
	return
}

// hMapStates builds the bijection reference state -> table state by parallel traversal.
func hMapStates(ref *refLALR, tb *Tables, nsym int) (m []int, problem string) {
	m = make([]int, len(ref.states))
	for i := range m {
		m[i] = -1
	}
	used := map[int]int{}
	var queue []int
	for i, s := range ref.starts {
		m[s] = i
		used[i] = s
		queue = append(queue, s)
	}
	for len(queue) > 0 {
		rs := queue[0]
		queue = queue[1:]
		ts := m[rs]
		for sym := 0; sym < nsym; sym++ {
			rt, ok := ref.states[rs].trans[sym]
			tt := tb.gotoState(ts, sym)
			if ok != (tt >= 0) {
				return nil, fmt.Sprintf("state %d: transition on symbol %d exists in LALR(1) automaton = %v, in tables = %v", ts, sym, ok, tt >= 0)
			}
			if !ok {
				continue
			}
			if m[rt] == -1 {
				if prev, dup := used[tt]; dup && prev != rt {
					return nil, fmt.Sprintf("table state %d corresponds to two different LALR(1) states", tt)
				}
				m[rt] = tt
				used[tt] = rt
				queue = append(queue, rt)
			} else if m[rt] != tt {
				return nil, fmt.Sprintf("state %d symbol %d: goto target mismatch (%d vs %d)", ts, sym, tt, m[rt])
			}
		}
	}
	if len(used) != tb.NumStates {
		return nil, fmt.Sprintf("tables have %d states, canonical LALR(1) has %d reachable states", tb.NumStates, len(used))
	}
	return m, ""
}

func hC03one(ck *vCheck, hg *hGrammar) {
	ref := buildRef(hg)
	g := hg.build()
	tb, err, pmsg := hCompile(g, Options{})
	desc := hg.String()
	if pmsg != "" {
		ck.Failf(desc, "Compile panicked: %s", pmsg)
		return
	}
	m, problem := hMapStates(ref, tb, hg.nt+hg.nn)
	if problem != "" {
		ck.Failf(desc, "automaton differs from canonical LALR(1): %s", problem)
		return
	}
	sr, rr := 0, 0
	for ri, rs := range ref.states {
		ts := m[ri]
		if ts < 0 {
			continue
		}
		final := false
		for i, f := range tb.FinalStates {
			if f == ts && !hg.inputs[i].Eoi {
				final = true // parsing stops here; actions are never consulted
			}
		}
		cells, lr0, nred := hRefCells(ref, rs)
		if lr0 {
			act := tb.Action[ts]
			switch {
			case nred == 1 && act != cells2rule(cells, ref, rs):
				if !final {
					ck.Failf(desc, "state %d has a single reduction and no terminal shifts: Action=%d, want the rule without lookahead", ts, act)
					return
				}
			case nred == 0 && act >= 0:
				ck.Failf(desc, "state %d has no reductions but Action=%d", ts, act)
				return
			}
			continue
		}
		for term, c := range cells {
			kind, val := tb.hTableAction(ts, term)
			n := len(c.reduces)
			if c.shift {
				n++
			}
			switch {
			case n == 0:
				if kind != 'e' && !final {
					ck.Failf(desc, "state %d terminal %d: no LALR(1) action, tables have %c%d", ts, term, kind, val)
					return
				}
			case n == 1 && c.shift:
				if kind != 's' {
					ck.Failf(desc, "state %d terminal %d: LALR(1) action is shift, tables have %c%d", ts, term, kind, val)
					return
				}
			case n == 1:
				if kind != 'r' || val != c.reduces[0] {
					ck.Failf(desc, "state %d terminal %d: LALR(1) action is reduce %d (lookahead set contains the terminal), tables have %c%d", ts, term, c.reduces[0], kind, val)
					return
				}
			case c.shift:
				sr++
				if kind != 's' {
					ck.Failf(desc, "state %d terminal %d: unresolved shift/reduce must default to shift, tables have %c%d", ts, term, kind, val)
					return
				}
			default:
				rr++
				if kind != 'r' || val != c.reduces[0] {
					ck.Failf(desc, "state %d terminal %d: unresolved reduce/reduce must default to the earlier rule %d, tables have %c%d", ts, term, c.reduces[0], kind, val)
					return
				}
			}
		}
	}
	if tb.SR != sr || tb.RR != rr {
		ck.Failf(desc, "conflict counts: tables report %d shift/reduce and %d reduce/reduce, canonical LALR(1) has %d and %d", tb.SR, tb.RR, sr, rr)
		return
	}
	if (err != nil) != (sr != 0 || rr != 0) {
		ck.Failf(desc, "error=%v with %d/%d conflicts and no %%expect", err, sr, rr)
		return
	}
	// %expect handling
	for _, exp := range [][2]int{{sr, rr}, {sr + 1, rr}, {sr, rr + 1}} {
		g2 := hg.build()
		g2.ExpectSR, g2.ExpectRR = exp[0], exp[1]
		_, err2, p2 := hCompile(g2, Options{})
		if p2 != "" {
			ck.Failf(desc, "Compile panicked with %%expect: %s", p2)
			return
		}
		want := exp[0] != sr || exp[1] != rr
		if (err2 != nil) != want {
			ck.Failf(desc, "%%expect %d / %%expect-rr %d with %d/%d actual conflicts: error=%v", exp[0], exp[1], sr, rr, err2)
			return
		}
	}
}

func cells2rule(cells []hCell, ref *refLALR, s *refState) int {
	for rule := range ref.reduces(s) {
		return rule
	}
	return -1
}

func TestVerifC03(t *testing.T) {
	ck := vNew("C03/lalr1-construction", "seeded random grammars (<=4 nonterminals, <=3 terminals, <=7 rules of length <=3, nullable and mutually recursive nonterminals; one input, eoi or no-eoi; or two inputs over distinct unreferenced nonterminals) compared cell by cell with canonical LR(1) merged by core", false,
		"Compile", "compiler.computeEmpty", "compiler.computeSets", "compiler.computeStates", "compiler.initLalr", "compiler.buildLA", "compiler.populateTables", "compiler.reportConflicts")
	r := vNewRand(vSeed() + 7)
	n := hCount(3000, 80000)
	for i := 0; i < n; i++ {
		hg := hRandGrammar(r, 4, 3, 7, 3, hGenOpts{noEoi: true})
		hg = hg.withFreshStart(hg.inputs[0].Eoi)
		ck.Case(true)
		if i < 3 {
			ck.Sample(hg.String())
		}
		hC03one(ck, hg)
	}
	// a few structured families: nullable chains and unit cycles
	for k := 1; k <= 3; k++ {
		hg := &hGrammar{nt: 3, nn: 3, inputs: []Input{{Nonterminal: 3, Eoi: true}}}
		hg.rules = []Rule{{LHS: 3, RHS: []Sym{4, 5}}, {LHS: 4, RHS: nil}, {LHS: 4, RHS: []Sym{1, 4}}, {LHS: 5, RHS: []Sym{4, 2}}, {LHS: 5, RHS: []Sym{5, Sym(k%2 + 1)}}}
		ck.Case(true)
		hC03one(ck, hg)
	}
	vWrite(t, []string{"reference: canonical LR(1) item sets merged by core, start states kept apart; final states of no-eoi inputs are exempt from action comparison (parsing stops there)"}, ck)
}

// ---------- C04 ----------

func hPrecOf(hg *hGrammar, rule int) Sym {
	r := hg.rules[rule]
	if r.Precedence != 0 {
		return r.Precedence
	}
	var last Sym
	for _, s := range r.RHS {
		if s > 0 && int(s) < hg.nt {
			last = s
		}
	}
	return last
}

func hGroup(hg *hGrammar, t Sym) int {
	for i, p := range hg.prec {
		for _, x := range p.Terminals {
			if x == t {
				return i
			}
		}
	}
	return -1
}

func TestVerifC04(t *testing.T) {
	ck := vNew("C04/precedence", "seeded random grammars with 1..3 precedence groups over <=3 terminals, %prec on rules, state markers; every table cell with one shift and one reduction compared with the documented resolution", false,
		"compiler.resolvePrec", "compiler.ruleAction", "compiler.populateTables")
	r := vNewRand(vSeed() + 11)
	n := hCount(4000, 100000)
	for i := 0; i < n; i++ {
		hg := hRandGrammar(r, 3, 3, 7, 3, hGenOpts{prec: true, markers: i%4 == 0})
		// expression-shaped rules make conflicts likely
		if i%2 == 0 {
			e := Sym(hg.nt)
			op := Sym(1 + r.Intn(hg.nt-1))
			hg.rules = append(hg.rules, Rule{LHS: e, RHS: []Sym{e, op, e}})
			if r.Intn(2) == 0 {
				op2 := Sym(1 + r.Intn(hg.nt-1))
				hg.rules = append(hg.rules, Rule{LHS: e, RHS: []Sym{e, op2, e}, Precedence: Sym(r.Intn(hg.nt))})
			}
			hg.rules = append(hg.rules, Rule{LHS: e, RHS: []Sym{Sym(1 + r.Intn(hg.nt-1))}})
		}
		hg = hg.withFreshStart(true)
		ref := buildRef(hg)
		g := hg.build()
		tb, _, pmsg := hCompile(g, Options{})
		desc := hg.String()
		if pmsg != "" {
			ck.Case(true)
			ck.Failf(desc, "Compile panicked: %s", pmsg)
			continue
		}
		m, problem := hMapStates(ref, tb, hg.nt+hg.nn)
		if problem != "" {
			ck.Case(true)
			ck.Failf(desc, "automaton differs from canonical LALR(1): %s", problem)
			continue
		}
		decided := 0
		sr := 0
		complex := false
		for ri, rs := range ref.states {
			ts := m[ri]
			if ts < 0 {
				continue
			}
			cells, lr0, _ := hRefCells(ref, rs)
			if lr0 {
				continue
			}
			for term, c := range cells {
				if !c.shift || len(c.reduces) == 0 {
					continue
				}
				// Several reductions next to the shift are merged one by one in rule order: a
				// reduction that beats the shift by precedence takes the cell (later ones are
				// unresolved reduce/reduce choices and lose to the earlier rule), %nonassoc turns
				// the cell into an error for good, and once a choice is undecidable the cell stays
				// a shift.
				reds := append([]int(nil), c.reduces...)
				sort.Ints(reds)
				want := byte('s')
				rule, rp := reds[0], Sym(0)
				for _, cand := range reds {
					if want != 's' {
						break
					}
					cp := hPrecOf(hg, cand)
					res := byte('c') // conflict -> shift
					if cp != 0 && term != 0 && hGroup(hg, cp) >= 0 && hGroup(hg, Sym(term)) >= 0 {
						gr, gt := hGroup(hg, cp), hGroup(hg, Sym(term))
						switch {
						case gr > gt:
							res = 'r'
						case gr < gt:
							res = 's'
						default:
							switch hg.prec[gr].Associativity {
							case Left:
								res = 'r'
							case Right:
								res = 's'
							default:
								res = 'e'
							}
						}
						decided++
					}
					if res != 's' {
						want, rule, rp = res, cand, cp
					}
				}
				if len(c.reduces) > 1 && want != 's' {
					// conflict counts are compared only when every multi-reduction cell is decided
					// for the shift (no conflict at all); how the others are counted is not specified
					complex = true
				}
				kind, val := tb.hTableAction(ts, term)
				ok := false
				switch want {
				case 'c':
					sr++
					ok = kind == 's'
				case 's':
					ok = kind == 's'
				case 'r':
					ok = kind == 'r' && val == rule
				case 'e':
					ok = kind == 'e'
				}
				if !ok {
					ck.Failf(desc, "state %d lookahead %d vs rule %d (rule precedence terminal %d): documented resolution is %q (c = unresolved, shift), tables have %c%d", ts, term, rule, rp, want, kind, val)
				}
				// the choice must stay observable through the compressed tables as well
				for _, dr := range []bool{false, true} {
					var enc *DisplacementEnc
					if p := vRecover(func() { enc = Optimize(tb.DefaultEnc, hg.nt, len(tb.RuleLen), dr) }); p != "" {
						continue
					}
					opt := &Tables{DefaultEnc: tb.DefaultEnc, Optimized: enc}
					tt := term
					na, _ := opt.hAction(ts, func(int) int { return tt }, hRunOpts{optimized: true})
					ok2 := true
					switch want {
					case 'c', 's':
						ok2 = na < -1
					case 'r':
						ok2 = na == rule
					case 'e':
						ok2 = na == -1
					}
					if !ok2 {
						ck.Failf(desc, "state %d lookahead %d vs rule %d: documented resolution is %q, optimized tables (defaultReduce=%v) decode to action %d", ts, term, rule, want, dr, na)
					}
				}
			}
		}
		if !complex && tb.SR != sr {
			ck.Failf(desc, "tables report %d shift/reduce conflicts, %d cells are undecidable by precedence", tb.SR, sr)
		}
		ck.Case(decided > 0)
		if decided > 0 {
			ck.Sample(desc)
		}
	}
	vWrite(t, nil, ck)
}

// ---------- C05 ----------

func hMostFrequent(tb *Tables, state int) map[int]bool {
	out := map[int]bool{}
	act := tb.Action[state]
	if act >= -2 {
		return out
	}
	cnt := map[int]int{}
	max := 0
	for a := -act - 3; tb.Lalr[a] >= 0; a += 2 {
		if v := tb.Lalr[a+1]; v >= 0 {
			cnt[v]++
			if cnt[v] > max {
				max = cnt[v]
			}
		}
	}
	for rule, c := range cnt {
		if c == max {
			out[rule] = true
		}
	}
	return out
}

func hC05tables(ck *vCheck, desc string, tb *Tables, terms, nsyms int, defaultReduce bool) {
	var enc *DisplacementEnc
	if p := vRecover(func() { enc = Optimize(tb.DefaultEnc, terms, len(tb.RuleLen), defaultReduce) }); p != "" {
		ck.Failf(desc, "Optimize panicked: %s", p)
		return
	}
	opt := &Tables{DefaultEnc: tb.DefaultEnc, Optimized: enc}
	for s := 0; s < len(tb.Action); s++ {
		for a := 0; a < terms; a++ {
			ok, ov := tb.hTableAction(s, a)
			// nonassoc error: explicit -2 entry for this terminal
			nonassoc := false
			if act := tb.Action[s]; act < -2 {
				for i := -act - 3; tb.Lalr[i] >= 0; i += 2 {
					if tb.Lalr[i] == a && tb.Lalr[i+1] == -2 {
						nonassoc = true
					}
				}
			}
			next := func(int) int { return a }
			na, _ := opt.hAction(s, next, hRunOpts{optimized: true})
			var nk byte
			nv := 0
			switch {
			case na >= 0:
				nk, nv = 'r', na
			case na < -1:
				nk, nv = 's', -2-na
			default:
				nk = 'e'
			}
			same := ok == nk && (ok == 'e' || ov == nv)
			if same {
				continue
			}
			if defaultReduce && ok == 'e' && !nonassoc && nk == 'r' && hMostFrequent(tb, s)[nv] {
				continue
			}
			ck.Failf(desc, "state %d terminal %d (defaultReduce=%v): uncompressed action %c%d, compressed tables decode to %c%d", s, a, defaultReduce, ok, ov, nk, nv)
			return
		}
		for nt := terms; nt < nsyms; nt++ {
			if want := tb.gotoState(s, nt); want >= 0 {
				if got := opt.hGoto(s, nt, terms, hRunOpts{optimized: true}); got != want {
					ck.Failf(desc, "goto(state %d, nonterminal %d): uncompressed %d, compressed %d", s, nt, want, got)
					return
				}
			}
		}
	}
}

func TestVerifC05(t *testing.T) {
	ck := vNew("C05/compressed-tables", "seeded random grammars (<=4 nonterminals, <=4 terminals, <=9 rules, precedence incl. nonassoc, conflicts allowed), every state x every symbol, with and without defaultReduce; plus synthetic line sets for pack()", false,
		"Optimize", "pack", "allocator.place", "pickDefault")
	r := vNewRand(vSeed() + 13)
	n := hCount(3000, 60000)
	for i := 0; i < n; i++ {
		hg := hRandGrammar(r, 4, 4, 9, 3, hGenOpts{prec: i%2 == 0, noEoi: true, multiInput: true})
		g := hg.build()
		tb, _, pmsg := hCompile(g, Options{})
		if pmsg != "" {
			ck.Case(true)
			ck.Failf(hg.String(), "Compile panicked: %s", pmsg)
			continue
		}
		ck.Case(true)
		if i < 3 {
			ck.Sample(hg.String())
		}
		for _, dr := range []bool{false, true} {
			hC05tables(ck, hg.String(), tb, hg.nt, hg.nt+hg.nn, dr)
		}
	}
	// pack(): every line must decode at its own base and nowhere else
	pk := vNew("C05/pack", "all sets of <=3 lines with positions <5, values in {1,2}, up to 3 pairs per line (exhaustive), seeded sets of <=8 lines with positions <12", false, "pack", "allocator.place", "allocator.grow", "hash")
	var lines [][]pair
	for mask := 1; mask < 32; mask++ {
		var pos []int
		for p := 0; p < 5; p++ {
			if mask&(1<<uint(p)) != 0 {
				pos = append(pos, p)
			}
		}
		if len(pos) > 3 {
			continue
		}
		for vm := 0; vm < 1<<uint(len(pos)); vm++ {
			var l []pair
			for k, p := range pos {
				l = append(l, pair{p, 1 + (vm>>uint(k))&1})
			}
			lines = append(lines, l)
		}
	}
	checkPack := func(in []line) {
		pk.Case(true)
		var idx, table, check []int
		desc := fmt.Sprint(in)
		if p := vRecover(func() { idx, table, check = pack(in) }); p != "" {
			pk.Failf(desc, "pack panicked: %s", p)
			return
		}
		for li, l := range in {
			for pos := 0; pos < 14; pos++ {
				want := -100
				for _, p := range l.pairs {
					if p.pos == pos {
						want = p.val
					}
				}
				got := -100
				if p := idx[li] + pos; p >= 0 && p < len(table) && check[p] == pos {
					got = table[p]
				}
				if got != want {
					pk.Failf(desc, "line %d position %d decodes to %d, want %d (indices %v table %v check %v)", li, pos, got, want, idx, table, check)
					return
				}
			}
		}
	}
	step := 1
	if vTier() != "thorough" {
		step = 7
	}
	cnt := 0
	for a := 0; a < len(lines); a++ {
		for b := 0; b < len(lines); b++ {
			checkPack([]line{{lines[a]}, {lines[b]}})
			for c := 0; c < len(lines); c++ {
				cnt++
				if cnt%step != 0 {
					continue
				}
				checkPack([]line{{lines[a]}, {lines[b]}, {lines[c]}})
			}
		}
	}
	pk.Exhaustive = step == 1
	// Lines of equal length whose hashes collide (hash is the polynomial ((p1*31+v1)*31+p2)*31+v2):
	// A = [(s,v1) (s+1,v2)] and B = [(s,v1) (s+2,v2-31)]. A third line F placed between them puts
	// the value v2-31 exactly where B would look if it reused A's base; the check array must keep
	// B from being de-duplicated against A.
	for s := 0; s < 3; s++ {
		for v1 := 1; v1 <= 3; v1++ {
			for v2 := 40; v2 <= 42; v2++ {
				for z := 1; z <= 2; z++ {
					a := []pair{{s, v1}, {s + 1, v2}}
					f := []pair{{0, v2 - 31}, {1, z}}
					b := []pair{{s, v1}, {s + 2, v2 - 31}}
					checkPack([]line{{a}, {f}, {b}})
					checkPack([]line{{a}, {f}, {b}, {[]pair{{0, z}}}})
					checkPack([]line{{f}, {a}, {b}})
				}
			}
		}
	}
	for i := 0; i < hCount(4000, 100000); i++ {
		nl := 1 + r.Intn(8)
		var in []line
		for k := 0; k < nl; k++ {
			var l []pair
			for p := 0; p < 12; p++ {
				if r.Intn(4) == 0 {
					l = append(l, pair{p, 1 + r.Intn(3)})
				}
			}
			if len(l) == 0 {
				l = []pair{{r.Intn(12), 1}}
			}
			in = append(in, line{l})
		}
		if i < 3 {
			pk.Sample(fmt.Sprint(in))
		}
		checkPack(in)
	}
	vWrite(t, []string{"decoders decAction/decGoto are hand transcriptions of the optimized branch of go_parser.go.tmpl"}, ck, pk)
}

// ---------- C06 ----------

func TestVerifC06(t *testing.T) {
	ck := vNew("C06/minimize", "seeded random grammars (<=4 nonterminals, <=3 terminals, <=9 rules, rule classes shared between rules, precedence incl. nonassoc, several inputs incl. no-eoi and repeated nonterminals), all token strings of length <=5 from every input: traces with and without minimizeDFA", false,
		"minimize", "computeRuleClasses", "partitionStatesByAction", "refinePartitions")
	kf := vNew("C06/minimize-final-states", "same grammars; only the class 'minimized parser stops early because a final state was merged' (known finding F17)", false, "minimize")
	kfSeen := false
	// State markers (Tables.Markers: the states generated parsers test with <marker>States[state],
	// e.g. where error recovery may restart) are remapped by minimize together with the states. The
	// two parsers run in lockstep, so the k-th state pushed by the minimized parser is the image of
	// the k-th state pushed by the unminimized one: every marker that holds in the latter has to hold
	// in the former. (Only this direction: a marked and an unmarked state may be merged.)
	mkc := vNew("C06/minimize-markers", "same grammars, those with state markers: along every run compared by C06/minimize, each marker listing the state the unminimized parser enters also lists the state the minimized parser enters at the same step", false, "minimize")
	inMarker := func(t *Tables, m, state int) bool {
		for _, s := range t.Markers[m].States {
			if s == state {
				return true
			}
		}
		return false
	}
	r := vNewRand(vSeed() + 17)
	n := hCount(2500, 30000)
	maxLen := hCount(5, 6)
	for i := 0; i < n; i++ {
		hg := hRandGrammar(r, 4, 3, 9, 3, hGenOpts{prec: i%3 == 0, noEoi: true, multiInput: true, markers: i%5 == 0})
		if i%2 == 1 {
			hg = hExprGrammar(r)
		}
		g := hg.build()
		for k := range g.Rules {
			g.Rules[k].Action = r.Intn(2)
			g.Rules[k].Type = r.Intn(2) - 1
		}
		g2 := *g
		g2.Rules = append([]Rule(nil), g.Rules...)
		plain, _, p1 := hCompile(g, Options{})
		mini, _, p2 := hCompile(&g2, Options{MinimizeDFA: true})
		desc := hg.String()
		if p1 != "" || p2 != "" {
			ck.Case(true)
			ck.Failf(desc, "Compile panicked: %s %s", p1, p2)
			continue
		}
		ck.Case(mini.NumStates < plain.NumStates)
		if mini.NumStates < plain.NumStates {
			ck.Sample(fmt.Sprintf("%s (%d -> %d states)", desc, plain.NumStates, mini.NumStates))
		}
		class := func(rule int) string {
			if rule >= len(g.Rules) {
				return fmt.Sprintf("la%d", rule)
			}
			rr := g.Rules[rule]
			return fmt.Sprintf("%d/%d/%d/%d", rr.LHS, plain.RuleLen[rule], rr.Action, rr.Type)
		}
		strs := hStrings(hg.nt, maxLen)
	outer:
		for in := range hg.inputs {
			for _, w := range strs {
				var va, vb []int
				a := plain.hRun(g, in, w, hRunOpts{classOf: class, visited: &va})
				b := mini.hRun(g, in, w, hRunOpts{classOf: class, visited: &vb})
				if a.bad != "" {
					continue // the unminimized tables themselves misbehave: not this property
				}
				if len(plain.Markers) > 0 && len(plain.Markers) == len(mini.Markers) && mkc.NFail == 0 {
					marked := false
					for k := 0; k < len(va) && k < len(vb); k++ {
						for m := range plain.Markers {
							if inMarker(plain, m, va[k]) {
								marked = true
								if !inMarker(mini, m, vb[k]) {
									mkc.Failf(desc, "input %d tokens %q, step %d: the unminimized parser enters state %d, which marker .%s lists (%v); the minimized parser enters state %d, which it does not list (%v)",
										in, hStr(w), k+1, va[k], plain.Markers[m].Name, plain.Markers[m].States, vb[k], mini.Markers[m].States)
								}
							}
						}
					}
					mkc.Case(marked)
					if marked && mini.NumStates < plain.NumStates {
						mkc.Sample(fmt.Sprintf("%s tokens %q", desc, hStr(w)))
					}
				}
				if b.bad != "" || a.accept != b.accept || a.errAt != b.errAt || fmt.Sprint(a.events) != fmt.Sprint(b.events) {
					note := ""
					prefix := len(b.events) <= len(a.events) && fmt.Sprint(a.events[:len(b.events)]) == fmt.Sprint(b.events)
					if b.accept && prefix && b.bad == "" {
						note = " [the minimized parser stops early with the same actions: minimizeDFA merged a final state with another state]"
						if !kfSeen {
							kfSeen = true
							kf.Failf(desc, "input %d tokens %q: unminimized %v accept=%v err=%d, minimized %v accept=%v err=%d%s", in, hStr(w), a.events, a.accept, a.errAt, b.events, b.accept, b.errAt, note)
						}
						continue
					}
					ck.Failf(desc, "input %d tokens %q: unminimized %v accept=%v err=%d, minimized %v accept=%v err=%d %s%s", in, hStr(w), a.events, a.accept, a.errAt, b.events, b.accept, b.errAt, b.bad, note)
					break outer
				}
			}
		}
	}
	// minimizeDFA together with multi-token lookahead: the entries of the lookahead tables that
	// refer to a lookahead trie are part of a state's behaviour as well.
	deep := vNew("C06/minimize-with-lalr-k", "seeded reduce/reduce families S: [x] A t.. | [x] B u.. | [y] C t.. | [y] D u.. with A,B,C,D: e|f and tails of 2..3 tokens sharing a prefix, compiled with lalr(2) and lalr(3), with and without minimizeDFA; all sentences and their single-token edits", false,
		"minimize", "partitionStatesByAction", "compiler.resolveWithLookahead")
	for i := 0; i < hCount(400, 8000); i++ {
		nt := 10
		hg := &hGrammar{nt: nt, nn: 5, inputs: []Input{{Nonterminal: Sym(nt), Eoi: true}}}
		S := Sym(nt)
		N := []Sym{Sym(nt + 1), Sym(nt + 2), Sym(nt + 3), Sym(nt + 4)}
		// two of three grammars get a pair of alternatives whose last states are bisimilar (S: h i | i i),
		// and the second conflict sits one or two tokens deep: states that are merged then come before
		// a state whose reductions are decided by a lookahead trie, so minimization renumbers that state
		pad, deepPrefix := r.Intn(3) != 0, r.Intn(2) == 0
		first := Sym(3 + r.Intn(3))
		tailOf := func() []Sym {
			s := []Sym{first}
			for k := 0; k < 1+r.Intn(2); k++ {
				s = append(s, Sym(3+r.Intn(4)))
			}
			return s
		}
		ta, tb2 := tailOf(), tailOf()
		hg.rules = []Rule{
			{LHS: S, RHS: append([]Sym{N[0]}, ta...)},
			{LHS: S, RHS: append([]Sym{N[1]}, tb2...)},
			{LHS: S, RHS: append([]Sym{1, N[2]}, ta...)},
			{LHS: S, RHS: append([]Sym{1, N[3]}, tb2...)},
			{LHS: N[0], RHS: []Sym{2}}, {LHS: N[1], RHS: []Sym{2}},
			{LHS: N[2], RHS: []Sym{Sym(2 + r.Intn(2)*5)}}, {LHS: N[3], RHS: nil},
		}
		hg.rules[7].RHS = hg.rules[6].RHS
		if deepPrefix {
			hg.rules[2].RHS = append([]Sym{1}, hg.rules[2].RHS...)
			hg.rules[3].RHS = append([]Sym{1}, hg.rules[3].RHS...)
		}
		if pad {
			hg.rules = append(hg.rules, Rule{LHS: S, RHS: []Sym{8, 9}}, Rule{LHS: S, RHS: []Sym{9, 9}})
		}
		if !hg.useful() {
			continue
		}
		for _, k := range []int{2, 3} {
			g, g2 := hg.build(), hg.build()
			if pad {
				// the two padding rules form one rule class (same left-hand side, length, action, type)
				for _, x := range []*Grammar{g, g2} {
					x.Rules[len(x.Rules)-1].Action = x.Rules[len(x.Rules)-2].Action
				}
			}
			// reductions are compared up to the rule class, as the property states it
			cls := func(ev []string) []string {
				out := make([]string, len(ev))
				for j, e := range ev {
					out[j] = e
					var ri int
					if n, _ := fmt.Sscanf(e, "r%d", &ri); n == 1 && ri < len(g.Rules) {
						out[j] = fmt.Sprintf("r(lhs %d, len %d, action %d)", g.Rules[ri].LHS, len(g.Rules[ri].RHS), g.Rules[ri].Action)
					}
				}
				return out
			}
			plain, e1, p1 := hCompile(g, Options{Lookahead: k})
			mini, e2, p2 := hCompile(g2, Options{Lookahead: k, MinimizeDFA: true})
			desc := fmt.Sprintf("%s lalr(%d)", hg.String(), k)
			if p1 != "" || p2 != "" {
				deep.Case(true)
				deep.Failf(desc, "Compile panicked: %s %s", p1, p2)
				break
			}
			if e1 != nil || e2 != nil || plain.UsedLADepth < 2 {
				deep.Case(false)
				continue
			}
			deep.Case(mini.NumStates < plain.NumStates) // multi-token lookahead is in use; non-trivial when states get merged
			if i < 40 {
				deep.Sample(fmt.Sprintf("%s (%d -> %d states)", desc, plain.NumStates, mini.NumStates))
			}
			for _, w := range hSentenceNeighbours(hg, 8, 80) {
				a1, ev1, _ := plain.hRunDeep(g, 0, w, nil)
				a2, ev2, _ := mini.hRunDeep(g, 0, w, nil)
				if a1 != a2 || fmt.Sprint(cls(ev1)) != fmt.Sprint(cls(ev2)) {
					deep.Failf(desc, "tokens %q: unminimized accept=%v %v, minimized accept=%v %v", hStr(w), a1, cls(ev1), a2, cls(ev2))
					break
				}
			}
		}
	}
	kf.Cases, kf.Nontrivial = ck.Cases, ck.Nontrivial
	vWrite(t, nil, ck, kf, deep, mkc)
}

// ---------- C07 ----------

type hDeepDecision struct {
	eventIdx   int   // index in events of the reduction chosen by the multi-token lookahead
	chosen     int   // rule picked by the trie
	candidates []int // every rule reachable in the trie below this cell
}

// hTrieRules collects the rules below a deep-lookahead entry of the Lalr array.
func (t *Tables) hTrieRules(action int, depth int, out map[int]bool) {
	if depth > 16 {
		return
	}
	a := -action - 3
	for ; a+1 < len(t.Lalr) && t.Lalr[a] >= 0; a += 2 {
		v := t.Lalr[a+1]
		if v >= 0 {
			out[v] = true
		} else if v < -2 {
			t.hTrieRules(v, depth+1, out)
		}
	}
}

// hRunDeep interprets the default encoding with multi-token lookahead; force[k] overrides the
// k-th multi-token decision with the given rule.
func (t *Tables) hRunDeep(g *Grammar, in int, w []Sym, force map[int]int) (accept bool, events []string, decisions []hDeepDecision) {
	defer func() { recover() }()
	end := t.FinalStates[in]
	state := in
	stack := []int{state}
	var syms []int
	pos := 0
	next := func(k int) int {
		if pos+k < len(w) {
			return int(w[pos+k])
		}
		return 0
	}
	for steps := 0; state != end && steps < 2000; steps++ {
		action := t.Action[state]
		if action < -2 {
			depth := 0
			for action < -2 {
				a := -action - 3
				sym := next(depth)
				for ; t.Lalr[a] >= 0; a += 2 {
					if t.Lalr[a] == sym {
						break
					}
				}
				prev := action
				action = t.Lalr[a+1]
				if depth == 0 && action < -2 {
					d := hDeepDecision{eventIdx: len(events)}
					cands := map[int]bool{}
					t.hTrieRules(action, 0, cands)
					// plus every rule whose right-hand side is on top of the symbol stack
					for ri, rule := range g.Rules {
						rhs := hRHS(rule)
						if len(rhs) > len(syms) {
							continue
						}
						match := true
						for x := range rhs {
							if syms[len(syms)-len(rhs)+x] != int(rhs[x]) {
								match = false
							}
						}
						if match {
							cands[ri] = true
						}
					}
					for c := range cands {
						d.candidates = append(d.candidates, c)
					}
					sort.Ints(d.candidates)
					decisions = append(decisions, d)
				}
				_ = prev
				depth++
				if depth > 16 {
					return false, events, decisions
				}
			}
			if depth > 1 {
				k := len(decisions) - 1
				decisions[k].chosen = action
				if f, ok := force[k]; ok {
					action = f
				}
			}
		}
		switch {
		case action >= 0:
			ln := t.RuleLen[action]
			stack = stack[:len(stack)-ln]
			syms = append(syms[:len(syms)-ln], t.RuleSymbol[action])
			state = t.gotoState(stack[len(stack)-1], t.RuleSymbol[action])
			stack = append(stack, state)
			events = append(events, fmt.Sprintf("r%d", action))
		case action == -1:
			state = t.gotoState(state, next(0))
			if state >= 0 {
				stack = append(stack, state)
				syms = append(syms, next(0))
				events = append(events, fmt.Sprintf("s%d", next(0)))
				if next(0) != 0 {
					pos++
				}
			}
		}
		if action == -2 || state == -1 {
			return false, events, decisions
		}
	}
	return state == end, events, decisions
}

// hIsF13 reports whether a wrongly rejected sentence falls into known finding F13: a multi-token
// lookahead decision picked a rule although, under another candidate rule, the parse succeeds and
// needs a reduction between shifting the first and the second lookahead token (the follow sets
// of terminal transitions only see in-state shifts).
func (t *Tables) hIsF13(g *Grammar, in int, w []Sym) bool {
	acc, _, decisions := t.hRunDeep(g, in, w, nil)
	if acc || len(decisions) == 0 {
		return false
	}
	for k, d := range decisions {
		for _, c := range d.candidates {
			if c == d.chosen {
				continue
			}
			acc2, ev, _ := t.hRunDeep(g, in, w, map[int]int{k: c})
			if !acc2 {
				continue
			}
			shifts := 0
			for _, e := range ev[d.eventIdx:] {
				if e[0] == 's' {
					shifts++
					if shifts >= t.UsedLADepth && shifts >= 2 {
						break
					}
				} else if shifts >= 1 {
					// a reduction between two tokens of the lookahead window. Reductions of empty
					// rules are NOT part of the finding: nullable nonterminals after a lookahead
					// token are followed through.
					var rule int
					fmt.Sscanf(e[1:], "%d", &rule)
					if rule >= 0 && rule < len(t.RuleLen) && t.RuleLen[rule] > 0 {
						return true
					}
				}
			}
		}
	}
	return false
}

func TestVerifC07(t *testing.T) {
	ck := vNew("C07/lalr-k", "seeded random grammars and reduce/reduce families that need 2..3 tokens of lookahead, compiled with lalr(2) and lalr(3) (lalr(4) thorough); all token strings of length <=6", false,
		"Compile", "compiler.resolveWithLookahead", "trieBuilder.resolve", "trieBuilder.emit")
	kf := vNew("C07/lalr-k-follow-through-reduction", "same grammars; only rejected sentences of the class described by known finding F13", false, "compiler.buildLA", "trieBuilder.resolve")
	kfSeen := map[int]bool{}
	r := vNewRand(vSeed() + 19)
	n := hCount(1500, 15000)
	ks := []int{2, 3}
	if vTier() == "thorough" {
		ks = []int{2, 3, 4}
	}
	one := func(hg *hGrammar) {
		g := hg.build()
		_, err1, _ := hCompile(g, Options{})
		for _, k := range ks {
			tb, err, pmsg := hCompile(hg.build(), Options{Lookahead: k})
			desc := fmt.Sprintf("%s lalr(%d)", hg.String(), k)
			if pmsg != "" {
				ck.Case(true)
				ck.Failf(desc, "Compile panicked: %s", pmsg)
				return
			}
			if err != nil {
				ck.Case(false)
				continue
			}
			nontrivial := err1 != nil || tb.UsedLADepth > 0
			ck.Case(nontrivial)
			if nontrivial {
				ck.Sample(desc)
			}
			strs := hStrings(hg.nt, 6)
			if hg.nt > 5 {
				// large alphabets: the sentences themselves plus every single-token edit of them
				strs = hSentenceNeighbours(hg, 8, 60)
			}
			for in, inp := range hg.inputs {
				e := newEarley(hg, inp.Nonterminal)
				for _, w := range strs {
					wantAcc, _ := hExpect(e, inp, w)
					tr := tb.hRun(g, in, w, hRunOpts{})
					if tr.bad != "" || tr.accept != wantAcc {
						if tr.bad == "" && wantAcc && tb.hIsF13(g, in, w) {
							if !kfSeen[k] {
								kfSeen[k] = true
								kf.Failf(desc, "input %d tokens %q: sentence rejected; the multi-token lookahead picked a rule although another candidate parses it with a reduction between the first two lookahead tokens (UsedLADepth=%d)", in, hStr(w), tb.UsedLADepth)
							}
							continue
						}
						ck.Failf(desc, "input %d tokens %q: parser accepts=%v, grammar says %v %s (UsedLADepth=%d)", in, hStr(w), tr.accept, wantAcc, tr.bad, tb.UsedLADepth)
						return
					}
				}
			}
		}
	}
	for i := 0; i < n; i++ {
		var hg *hGrammar
		if i%2 == 0 {
			hg = hRandGrammar(r, 4, 3, 8, 3, hGenOpts{noEoi: i%6 == 0})
		} else {
			// S -> A x.. | B y..; A -> e; B -> e  with shared prefixes, optionally through a nonterminal
			nt := 4
			hg = &hGrammar{nt: nt, nn: 4, inputs: []Input{{Nonterminal: Sym(nt), Eoi: true}}}
			S, A, B, X := Sym(nt), Sym(nt+1), Sym(nt+2), Sym(nt+3)
			tail := func() []Sym {
				var s []Sym
				for k := 0; k < 1+r.Intn(3); k++ {
					if r.Intn(4) == 0 {
						s = append(s, X)
					} else {
						s = append(s, Sym(1+r.Intn(nt-1)))
					}
				}
				return s
			}
			e := Sym(1 + r.Intn(nt-1))
			t1, t2 := tail(), tail()
			if r.Intn(2) == 0 {
				// a common first token, so that one token of lookahead cannot decide; sometimes
				// followed by the (possibly nullable) nonterminal in one of the tails
				first := Sym(1 + r.Intn(nt-1))
				if r.Intn(2) == 0 {
					t1 = append([]Sym{X}, t1...)
				}
				t1 = append([]Sym{first}, t1...)
				t2 = append([]Sym{first}, t2...)
			}
			hg.rules = []Rule{
				{LHS: S, RHS: append([]Sym{A}, t1...)},
				{LHS: S, RHS: append([]Sym{B}, t2...)},
				{LHS: A, RHS: []Sym{e}},
				{LHS: B, RHS: []Sym{e}},
				{LHS: X, RHS: []Sym{Sym(1 + r.Intn(nt-1))}},
			}
			if r.Intn(2) == 0 {
				hg.rules = append(hg.rules, Rule{LHS: X, RHS: []Sym{Sym(1 + r.Intn(nt-1)), Sym(1 + r.Intn(nt-1))}})
			}
			if r.Intn(3) == 0 {
				// a nullable nonterminal in the tails: the token after it is lookahead as well
				hg.rules = append(hg.rules, Rule{LHS: X, RHS: nil})
			}
			if !hg.useful() {
				continue
			}
		}
		if i%8 == 5 {
			// One reduce/reduce choice (A -> e | B -> e, deliberately rules 0 and 1) whose lookahead
			// automaton has several nodes: two groups of continuations with different first tokens, the
			// first group needing one more token than the second. The nodes of all conflicts of a grammar
			// share one minimization cache, and node ids start at 0 like rule numbers do (seeded change
			// C07-r7m2 made "go to node n" and "reduce rule n" indistinguishable there).
			nt := 9
			hg = &hGrammar{nt: nt, nn: 3, inputs: []Input{{Nonterminal: Sym(nt), Eoi: true}}}
			S, A, B := Sym(nt), Sym(nt+1), Sym(nt+2)
			z := Sym(8) // padding: every sentence goes on for three more tokens after the ones that decide,
			// so that no reduction falls into the lookahead window (which is what known finding F13 is about)
			p := []int{0, 1, 2, 3, 4, 5}
			for j := 5; j > 0; j-- {
				q := r.Intn(j + 1)
				p[j], p[q] = p[q], p[j]
			}
			tk := func(j int) Sym { return Sym(2 + p[j]) } // six distinct terminals 2..7; terminal 1 is e
			f1, f2, g, h, x, y := tk(0), tk(1), tk(2), tk(3), tk(4), tk(5)
			hg.rules = []Rule{
				{LHS: A, RHS: []Sym{1}},
				{LHS: B, RHS: []Sym{1}},
				{LHS: S, RHS: []Sym{A, f1, g, x, z, z, z}},
				{LHS: S, RHS: []Sym{B, f1, g, y, z, z, z}},
				{LHS: S, RHS: []Sym{B, f1, h, z, z, z}},
				{LHS: S, RHS: []Sym{A, f2, g, z, z, z}},
				{LHS: S, RHS: []Sym{B, f2, h, z, z, z}},
			}
			if r.Intn(2) == 0 {
				hg.rules[5], hg.rules[6] = Rule{LHS: S, RHS: []Sym{B, f2, g, z, z, z}}, Rule{LHS: S, RHS: []Sym{A, f2, h, z, z, z}}
			}
			if r.Intn(3) == 0 {
				hg.rules = append(hg.rules, Rule{LHS: S, RHS: []Sym{A, x, y, z, z, z}})
			}
		}
		if i%4 == 3 {
			// two left contexts x / y around conflicting unit reductions:
			// S -> x N1 t1 | x N2 t2 | y N3 t3 | y N4 t4 with N -> e | f and tails over {a b c d}
			nt := 9
			hg = &hGrammar{nt: nt, nn: 5, inputs: []Input{{Nonterminal: Sym(nt), Eoi: true}}}
			S := Sym(nt)
			N := []Sym{Sym(nt + 1), Sym(nt + 2), Sym(nt + 3), Sym(nt + 4)}
			tails := func() []Sym {
				var s []Sym
				for k := 0; k < 2+r.Intn(2); k++ {
					s = append(s, Sym(3+r.Intn(4)))
				}
				return s
			}
			base := tails()
			vary := func() []Sym {
				t := append([]Sym(nil), base...)
				t[len(t)-1] = Sym(3 + r.Intn(4))
				if r.Intn(3) == 0 {
					t = tails()
				}
				return t
			}
			second := []Sym{N[0], N[1]}
			if r.Intn(2) == 0 {
				second = []Sym{N[2], N[3]}
			}
			hg.rules = []Rule{
				{LHS: S, RHS: append([]Sym{1, N[0]}, vary()...)},
				{LHS: S, RHS: append([]Sym{1, N[1]}, vary()...)},
				{LHS: S, RHS: append([]Sym{2, second[0]}, vary()...)},
				{LHS: S, RHS: append([]Sym{2, second[1]}, vary()...)},
				{LHS: N[0], RHS: []Sym{7}}, {LHS: N[1], RHS: []Sym{7}},
				{LHS: N[2], RHS: []Sym{8}}, {LHS: N[3], RHS: []Sym{8}},
			}
			if second[0] == N[0] {
				hg.rules = hg.rules[:6]
				hg.nn = 3
			}
		}
		one(hg)
	}
	kf.Cases, kf.Nontrivial = ck.Cases, ck.Nontrivial
	vWrite(t, []string{"deep lookahead interpreter transcribed from the resolveDeepLA template block"}, ck, kf)
}
