package graph

// Bounded executable contracts for the graph algorithms (C26): exhaustive over all digraphs with
// up to 4 vertices, seeded random graphs up to 8.

import (
	"fmt"
	"sort"
	"testing"

	"github.com/inspirer/textmapper/util/container"
)

func c26reach(g [][]int) [][]bool {
	n := len(g)
	r := make([][]bool, n)
	for i := range r {
		r[i] = make([]bool, n)
		for _, e := range g[i] {
			r[i][e] = true
		}
	}
	for k := 0; k < n; k++ {
		for i := 0; i < n; i++ {
			for j := 0; j < n; j++ {
				if r[i][k] && r[k][j] {
					r[i][j] = true
				}
			}
		}
	}
	return r
}

func c26checkTarjan(ck *vCheck, g [][]int) {
	n := len(g)
	in := fmt.Sprint(g)
	r := c26reach(g)
	seen := make([]int, n)
	var comps [][]int
	bad := ""
	pmsg := vRecover(func() {
		Tarjan(g, func(vs []int, onStack container.BitSet) {
			c := append([]int(nil), vs...)
			for _, v := range c {
				if !onStack.Get(v) {
					bad = fmt.Sprintf("vertex %d of component %v is not marked onStack in the callback", v, c)
				}
			}
			comps = append(comps, c)
		})
	})
	if pmsg != "" {
		ck.Failf(in, "Tarjan panicked: %s", pmsg)
		return
	}
	if bad != "" {
		ck.Fail(bad, in)
	}
	compOf := make([]int, n)
	for ci, c := range comps {
		for _, v := range c {
			seen[v]++
			compOf[v] = ci
		}
	}
	for v := 0; v < n; v++ {
		if seen[v] != 1 {
			ck.Failf(in, "vertex %d reported %d times (components %v)", v, seen[v], comps)
			return
		}
	}
	for a := 0; a < n; a++ {
		for b := 0; b < n; b++ {
			same := a == b || (r[a][b] && r[b][a])
			if same != (compOf[a] == compOf[b]) {
				ck.Failf(in, "vertices %d and %d: mutually reachable=%v but components %v", a, b, same, comps)
				return
			}
			// reverse topological order: if a reaches b (different components) then b's component comes first
			if r[a][b] && compOf[a] != compOf[b] && compOf[b] > compOf[a] {
				ck.Failf(in, "component of %d reported before the component of %d which it reaches (%v)", a, b, comps)
				return
			}
		}
	}
}

func c26checkClosure(ck *vCheck, g [][]int) {
	n := len(g)
	in := fmt.Sprint(g)
	m := NewMatrix(n)
	for i, es := range g {
		for _, e := range es {
			m.AddEdge(i, e)
		}
	}
	for i := 0; i < n; i++ {
		for j := 0; j < n; j++ {
			has := false
			for _, e := range g[i] {
				if e == j {
					has = true
				}
			}
			if m.HasEdge(i, j) != has {
				ck.Failf(in, "HasEdge(%d,%d) = %v after AddEdge of the edge list", i, j, m.HasEdge(i, j))
				return
			}
		}
	}
	// Graph() must give back the rows
	adj := m.Graph(nil)
	for i := 0; i < n; i++ {
		want := append([]int(nil), g[i]...)
		sort.Ints(want)
		want = c26uniq(want)
		if fmt.Sprint(adj[i]) != fmt.Sprint(want) && !(len(adj[i]) == 0 && len(want) == 0) {
			ck.Failf(in, "Matrix.Graph row %d = %v, want %v", i, adj[i], want)
			return
		}
	}
	m.Closure()
	r := c26reach(g)
	for i := 0; i < n; i++ {
		for j := 0; j < n; j++ {
			if m.HasEdge(i, j) != r[i][j] {
				ck.Failf(in, "after Closure HasEdge(%d,%d) = %v, reachable = %v", i, j, m.HasEdge(i, j), r[i][j])
				return
			}
		}
	}
}

func c26uniq(s []int) []int {
	var out []int
	for i, v := range s {
		if i == 0 || s[i-1] != v {
			out = append(out, v)
		}
	}
	return out
}

func c26checkTranspose(ck *vCheck, g [][]int) {
	in := fmt.Sprint(g)
	var tr [][]int
	if p := vRecover(func() { tr = Transpose(g) }); p != "" {
		ck.Failf(in, "Transpose panicked: %s", p)
		return
	}
	n := len(g)
	if len(tr) != n {
		ck.Failf(in, "Transpose has %d rows", len(tr))
		return
	}
	cnt := func(s []int, x int) (c int) {
		for _, v := range s {
			if v == x {
				c++
			}
		}
		return
	}
	for f := 0; f < n; f++ {
		for t := 0; t < n; t++ {
			if cnt(tr[t], f) != cnt(g[f], t) {
				ck.Failf(in, "edge %d->%d occurs %d times, reversed edge occurs %d times in %v", f, t, cnt(g[f], t), cnt(tr[t], f), tr)
				return
			}
		}
	}
}

func c26checkLongest(ck *vCheck, g [][]int) {
	in := fmt.Sprint(g)
	n := len(g)
	r := c26reach(g)
	cyclic := false
	for i := 0; i < n; i++ {
		if r[i][i] {
			cyclic = true
		}
	}
	var p []int
	if pm := vRecover(func() { p = LongestPath(g) }); pm != "" {
		ck.Failf(in, "LongestPath panicked: %s", pm)
		return
	}
	if cyclic {
		if p != nil {
			ck.Failf(in, "cyclic graph but LongestPath = %v", p)
		}
		return
	}
	if p == nil {
		ck.Failf(in, "acyclic graph but LongestPath = nil")
		return
	}
	for i := 0; i+1 < len(p); i++ {
		ok := false
		for _, e := range g[p[i]] {
			if e == p[i+1] {
				ok = true
			}
		}
		if !ok {
			ck.Failf(in, "LongestPath %v uses a non-edge %d->%d", p, p[i], p[i+1])
			return
		}
	}
	// maximum length by DP over the DAG
	memo := make([]int, n)
	var h func(i int) int
	h = func(i int) int {
		if memo[i] != 0 {
			return memo[i]
		}
		best := 1
		for _, e := range g[i] {
			if x := h(e) + 1; x > best {
				best = x
			}
		}
		memo[i] = best
		return best
	}
	max := 0
	for i := 0; i < n; i++ {
		if h(i) > max {
			max = h(i)
		}
	}
	if len(p) != max {
		ck.Failf(in, "LongestPath %v has %d vertices, the maximum is %d", p, len(p), max)
	}
}

func c26all(n int, f func(g [][]int)) {
	bits := n * n
	for m := 0; m < 1<<uint(bits); m++ {
		g := make([][]int, n)
		for i := 0; i < n; i++ {
			for j := 0; j < n; j++ {
				if m&(1<<uint(i*n+j)) != 0 {
					g[i] = append(g[i], j)
				}
			}
		}
		f(g)
	}
}

func TestVerifC26(t *testing.T) {
	tj := vNew("C26/tarjan", "all digraphs with 2..4 vertices (adjacency lists in increasing order), plus seeded random graphs with 5..8 vertices, random edge order and duplicate edges", false, "Tarjan", "tarjan.run", "tarjan.strongConnect")
	cl := vNew("C26/closure", "all digraphs with 1..4 vertices; seeded random up to 8", false, "Matrix.Closure", "Matrix.AddEdge", "Matrix.HasEdge", "Matrix.Graph", "NewMatrix")
	tp := vNew("C26/transpose", "all digraphs with 1..4 vertices; seeded random up to 8 with duplicate edges", false, "Transpose")
	lp := vNew("C26/longest-path", "all digraphs with 1..4 vertices; seeded random up to 8", false, "LongestPath")
	for n := 1; n <= 4; n++ {
		c26all(n, func(g [][]int) {
			if n >= 2 {
				tj.Case(true)
				c26checkTarjan(tj, g)
			}
			cl.Case(true)
			c26checkClosure(cl, g)
			tp.Case(true)
			c26checkTranspose(tp, g)
			lp.Case(true)
			c26checkLongest(lp, g)
			if n == 3 {
				tj.Sample(fmt.Sprint(g))
				cl.Sample(fmt.Sprint(g))
				tp.Sample(fmt.Sprint(g))
				lp.Sample(fmt.Sprint(g))
			}
		})
	}
	r := vNewRand(vSeed())
	count := 4000
	if vTier() == "thorough" {
		count = 100000
	}
	for k := 0; k < count; k++ {
		n := 5 + r.Intn(4)
		g := make([][]int, n)
		dens := 1 + r.Intn(4)
		for i := 0; i < n; i++ {
			for j := 0; j < n; j++ {
				if r.Intn(8) < dens {
					g[i] = append(g[i], j)
				}
			}
			// shuffle and sometimes duplicate
			for a := len(g[i]) - 1; a > 0; a-- {
				b := r.Intn(a + 1)
				g[i][a], g[i][b] = g[i][b], g[i][a]
			}
			if len(g[i]) > 0 && r.Intn(5) == 0 {
				g[i] = append(g[i], g[i][0])
			}
		}
		tj.Case(true)
		c26checkTarjan(tj, g)
		cl.Case(true)
		c26checkClosure(cl, g)
		tp.Case(true)
		c26checkTranspose(tp, g)
		lp.Case(true)
		c26checkLongest(lp, g)
	}
	vWrite(t, nil, tj, cl, tp, lp)
}
