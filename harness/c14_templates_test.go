package syntax

// Bounded executable contract for template instantiation (C14): every input derives, after
// Instantiate, exactly what its templated definition derives under the parameter valuation.

import (
	"fmt"
	"testing"
)

func c14pred(r *vRand, params []int, depth int) *Predicate {
	o := c13node("p")
	if depth == 0 || r.Intn(2) == 0 {
		p := &Predicate{Op: Equals, Param: params[r.Intn(len(params))], Value: []string{"true", "false"}[r.Intn(2)], Origin: o}
		if r.Intn(3) == 0 {
			return &Predicate{Op: Not, Sub: []*Predicate{p}, Origin: o}
		}
		return p
	}
	op := And
	if r.Intn(2) == 0 {
		op = Or
	}
	return &Predicate{Op: op, Origin: o, Sub: []*Predicate{c14pred(r, params, depth-1), c14pred(r, params, depth-1)}}
}

func c14ref(r *vRand, m *Model, target int, own []int) *Expr {
	e := c13ref(len(m.Terminals) + target)
	for _, p := range m.Nonterms[target].Params {
		a := Arg{Param: p, Origin: c13node("a")}
		// propagate from one of our own parameters, or give an explicit value
		if len(own) > 0 && r.Intn(2) == 0 {
			a.TakeFrom = own[r.Intn(len(own))]
		} else {
			a.Value = []string{"true", "false"}[r.Intn(2)]
		}
		e.Args = append(e.Args, a)
	}
	return e
}

func c14body(r *vRand, m *Model, self int) *Expr {
	o := c13node("b")
	own := m.Nonterms[self].Params
	nalts := 2 + r.Intn(2)
	ch := &Expr{Kind: Choice, Origin: o}
	for k := 0; k < nalts; k++ {
		seq := &Expr{Kind: Sequence, Origin: o}
		for j := 0; j < 1+r.Intn(3); j++ {
			switch {
			case r.Intn(3) == 0:
				// refer to a later nonterminal (keeps the grammar non-left-recursive enough) or any
				t := r.Intn(len(m.Nonterms))
				if t == 0 {
					t = self
				}
				ref := c14ref(r, m, t, own)
				if r.Intn(4) == 0 {
					seq.Sub = append(seq.Sub, &Expr{Kind: Optional, Origin: o, Sub: []*Expr{ref}})
				} else {
					seq.Sub = append(seq.Sub, ref)
				}
			default:
				seq.Sub = append(seq.Sub, c13ref(1+r.Intn(len(m.Terminals)-1)))
			}
		}
		var alt *Expr = seq
		if len(seq.Sub) == 1 {
			alt = seq.Sub[0]
		}
		if len(own) > 0 && r.Intn(2) == 0 {
			alt = &Expr{Kind: Conditional, Predicate: c14pred(r, own, 2), Origin: o, Sub: []*Expr{alt}}
		}
		ch.Sub = append(ch.Sub, alt)
	}
	// always one unconditional terminal alternative so that every instance is productive
	ch.Sub = append(ch.Sub, c13ref(1+r.Intn(len(m.Terminals)-1)))
	return ch
}

func TestVerifC14(t *testing.T) {
	ck := vNew("C14/instantiate", "seeded templated models: 1..2 boolean parameters, 3..4 nonterminals with parameter lists, conditional alternatives with ! && || == !=, explicit and propagated arguments, optional references; two unparameterised inputs; all terminal strings of length <=4 (<=5 thorough)", false,
		"Instantiate", "instantiator.doExpr", "instantiator.check", "instantiator.resolveInstance", "instance.resolve", "Model.Rearrange")
	r := vNewRand(vSeed() + 61)
	n := 3000
	maxLen := 4
	if vTier() == "thorough" {
		n, maxLen = 60000, 5
	}
	for i := 0; i < n; i++ {
		m := &Model{Terminals: []Terminal{{Name: "EOI"}, {Name: "a"}, {Name: "b"}, {Name: "c"}}}
		np := 1 + r.Intn(2)
		for p := 0; p < np; p++ {
			m.Params = append(m.Params, Param{Name: fmt.Sprintf("P%d", p), DefaultValue: []string{"true", "false"}[r.Intn(2)], Origin: c13node("param")})
		}
		nn := 3 + r.Intn(2)
		names := []string{"In", "Tq", "Ab", "Zz"}
		for k := 0; k < nn; k++ {
			nt := &Nonterm{Name: names[k], Origin: c13node(names[k])}
			if k >= 2 || (k == 1 && r.Intn(2) == 0) {
				for p := 0; p < np; p++ {
					if r.Intn(3) != 0 {
						nt.Params = append(nt.Params, p)
					}
				}
			}
			m.Nonterms = append(m.Nonterms, nt)
		}
		for k := range m.Nonterms {
			m.Nonterms[k].Value = c14body(r, m, k)
		}
		m.Inputs = []Input{{Nonterm: 0}}
		if len(m.Nonterms[1].Params) == 0 {
			m.Inputs = append(m.Inputs, Input{Nonterm: 1, NoEoi: r.Intn(2) == 0})
		}
		pre := c13clone(m)
		desc := c14str(pre)
		var err error
		if p := vRecover(func() { err = Instantiate(m) }); p != "" {
			ck.Case(true)
			ck.Failf(desc, "Instantiate panicked: %s", p)
			continue
		}
		if err != nil {
			ck.Case(false)
			continue
		}
		ck.Case(true)
		if i < 3 {
			ck.Sample(desc)
		}
		dpre, dpost := newDen(pre, nil), newDen(m, nil)
		words := c13words(len(m.Terminals), maxLen)
	inputs:
		for in := range pre.Inputs {
			a := dpre.ntSym(pre.Inputs[in].Nonterm, nil, map[int]string{})
			b := dpost.ntSym(m.Inputs[in].Nonterm, nil, nil)
			for _, w := range words {
				if x, y := dpre.g.accepts(a, w), dpost.g.accepts(b, w); x != y {
					ck.Failf(desc, "input %s, terminals %v: the template derives it = %v, the instantiated grammar derives it = %v\ninstantiated: %s", pre.Nonterms[pre.Inputs[in].Nonterm].Name, w, x, y, c14str(m))
					break inputs
				}
			}
		}
	}
	vWrite(t, []string{"lookahead flags (PropagateLookaheads) are not generated; every reference carries an argument for each parameter of its target, as the front end guarantees"}, ck)
}

func c14str(m *Model) string {
	s := ""
	for _, p := range m.Params {
		s += fmt.Sprintf("%%flag %s=%s; ", p.Name, p.DefaultValue)
	}
	for _, nt := range m.Nonterms {
		ps := ""
		for _, p := range nt.Params {
			ps += m.Params[p].Name + " "
		}
		if ps != "" {
			ps = "<" + ps[:len(ps)-1] + ">"
		}
		s += nt.Name + ps + ": " + c13expr(m, nt.Value) + "; "
	}
	s += "inputs:"
	for _, in := range m.Inputs {
		s += " " + m.Nonterms[in.Nonterm].Name
	}
	return s
}
