package compiler

// C13 (bounded), front end included: grammars written as .tm TEXT in the extended notation
// (nested groups with empty alternatives, optionals, * and + lists with one- and two-token
// separators, field names, arrows) are compiled by the real pipeline (convertRules, convertPart,
// Expand, ...); the plain rules that come out must derive, from the input, exactly the strings the
// notation denotes, computed here from the generator's own tree. Uses the plain-grammar type and the
// Earley recogniser of c14_compiler_test.go.

import (
	"context"
	"fmt"
	"os"
	"strings"
	"testing"

	"github.com/inspirer/textmapper/status"
)

type n13 struct {
	kind  byte // 't' terminal, 'n' nonterminal, 's' sequence, 'c' group of alternatives, 'o' optional, 'l' list
	term  int
	nt    int
	sub   []*n13
	sep   []int // list separator (terminals)
	plus  bool
	name  string // field name: f= or g+=
	arrow string
}

var n13NT = []string{"In", "Na", "Nb", "Nc"}

// n13OptSuffix: X? of a plain nonterminal reference is written Xopt in this grammar
var n13OptSuffix bool

func n13Rand(r *vRand, depth, nn int) *n13 {
	leaf := func() *n13 {
		n := &n13{kind: 't', term: 1 + r.Intn(3)}
		if r.Intn(4) == 0 {
			n = &n13{kind: 'n', nt: 1 + r.Intn(nn-1)}
		}
		switch r.Intn(7) {
		case 0:
			n.name = "f="
		case 1:
			n.name = "g+="
		}
		return n
	}
	if depth == 0 || r.Intn(3) == 0 {
		return leaf()
	}
	switch r.Intn(5) {
	case 0:
		n := &n13{kind: 's'}
		for i := 0; i < 2+r.Intn(2); i++ {
			n.sub = append(n.sub, n13Rand(r, depth-1, nn))
		}
		return n
	case 1:
		n := &n13{kind: 'c'}
		for i := 0; i < 2+r.Intn(2); i++ {
			a := n13Rand(r, depth-1, nn)
			if r.Intn(5) == 0 {
				a = &n13{kind: 's'} // an empty alternative
			} else if r.Intn(5) == 0 {
				a = &n13{kind: 's', sub: []*n13{a}, arrow: "Inner"}
			}
			n.sub = append(n.sub, a)
		}
		return n
	case 2:
		return &n13{kind: 'o', sub: []*n13{n13Rand(r, depth-1, nn)}}
	default:
		// list elements: a symbol or a group of symbols (never nullable)
		var elem *n13
		if r.Intn(2) == 0 {
			elem = leaf()
		} else {
			elem = &n13{kind: 'c', sub: []*n13{leaf(), leaf()}}
		}
		n := &n13{kind: 'l', sub: []*n13{elem}, plus: r.Intn(2) == 0}
		switch r.Intn(4) {
		case 0:
			n.sep = []int{1 + r.Intn(3)}
		case 1:
			n.sep = []int{1 + r.Intn(3), 1 + r.Intn(3)}
		}
		return n
	}
}

func (n *n13) render(top bool) string {
	switch n.kind {
	case 't':
		return n.name + g14Terms[n.term]
	case 'n':
		return n.name + n13NT[n.nt]
	case 's':
		var ps []string
		for _, s := range n.sub {
			ps = append(ps, s.render(false))
		}
		out := strings.Join(ps, " ")
		if n.arrow != "" {
			out += " -> " + n.arrow
		}
		if len(n.sub) == 0 && top {
			return "%empty"
		}
		return out
	case 'c':
		var ps []string
		for _, s := range n.sub {
			ps = append(ps, s.render(false))
		}
		return "(" + strings.Join(ps, " | ") + ")"
	case 'o':
		inner := n.sub[0]
		if n13OptSuffix && inner.kind == 'n' && inner.name == "" {
			return n13NT[inner.nt] + "opt" // the suffix notation: an optional symbol instantiated on demand
		}
		if inner.kind == 't' || inner.kind == 'n' || inner.kind == 'c' {
			return inner.render(false) + "?"
		}
		return "(" + inner.render(false) + ")?"
	}
	// list
	q := "*"
	if n.plus {
		q = "+"
	}
	elem := n.sub[0].render(false)
	if len(n.sep) == 0 {
		if n.sub[0].kind == 'c' {
			return elem + q
		}
		return elem + q
	}
	var sp []string
	for _, t := range n.sep {
		sp = append(sp, g14Terms[t])
	}
	return "(" + elem + " separator " + strings.Join(sp, " ") + ")" + q
}

// alts returns the alternatives (sequences of plain-grammar symbols) the node denotes.
func (n *n13) alts(cfg *g14cfg, ntSym func(int) int) [][]int {
	wrap := func(a [][]int) int {
		if len(a) == 1 && len(a[0]) == 1 {
			return a[0][0]
		}
		s := cfg.next
		cfg.next++
		cfg.rules[s] = a
		return s
	}
	switch n.kind {
	case 't':
		return [][]int{{n.term}}
	case 'n':
		return [][]int{{ntSym(n.nt)}}
	case 's':
		seq := []int{}
		for _, s := range n.sub {
			a := s.alts(cfg, ntSym)
			if len(a) == 1 {
				seq = append(seq, a[0]...)
			} else {
				seq = append(seq, wrap(a))
			}
		}
		return [][]int{seq}
	case 'c':
		var out [][]int
		for _, s := range n.sub {
			out = append(out, s.alts(cfg, ntSym)...)
		}
		return out
	case 'o':
		return append(n.sub[0].alts(cfg, ntSym), []int{})
	}
	elem := wrap(n.sub[0].alts(cfg, ntSym))
	l := cfg.next
	cfg.next++
	rec := []int{l}
	rec = append(rec, n.sep...)
	rec = append(rec, elem)
	cfg.rules[l] = [][]int{{elem}, rec}
	if n.plus {
		return [][]int{{l}}
	}
	return [][]int{{l}, {}}
}

func TestVerifC13Compiler(t *testing.T) {
	ck := vNew("C13/compiled-notation", "seeded grammars as .tm text: 3..4 nonterminals of 1..3 alternatives, expression trees of depth <=3 with nested groups (incl. empty alternatives and inner arrows), optionals, * and + lists over symbols and groups with separators of 0..2 tokens, field names (f=, g+=), arrows; all terminal strings of length <=4 (<=5 thorough) from the input", false,
		"syntaxLoader.convertRules", "syntaxLoader.convertPart", "syntaxLoader.convertSeparator", "syntax.Expand", "expander.expandRule", "expander.extractNonterm", "Compile")
	r := vNewRand(vSeed() + 1313)
	n, maxLen := 1200, 4
	if vTier() == "thorough" {
		n, maxLen = 8000, 5
	}
	var words [][]int
	prev := [][]int{{}}
	words = append(words, []int{})
	for l := 1; l <= maxLen; l++ {
		var cur [][]int
		for _, p := range prev {
			for t := 1; t <= 3; t++ {
				cur = append(cur, append(append([]int(nil), p...), t))
			}
		}
		words = append(words, cur...)
		prev = cur
	}
	trace := os.Getenv("VERIF_TRACE")
	rejected := map[string]int{}
	for i := 0; i < n; i++ {
		nn := 3 + r.Intn(2)
		trees := make([][]*n13, nn)
		var sb strings.Builder
		// every fourth grammar writes optional nonterminals with the opt suffix; every eighth does so
		// for the C++ target with typed nonterminals, where the instantiated Xopt carries a semantic
		// action next to the optional part (seeded change C13-r13m2 lost the empty alternative there)
		n13OptSuffix = i%4 == 3
		typed := i%8 == 7
		if typed {
			sb.WriteString("language g13(cc);\n\nnamespace = \"g13\"\n\n:: lexer\n\n'a': /a/\n'b': /b/\n'c': /c/\n\n:: parser\n\n%input In;\n\n")
		} else {
			sb.WriteString("language g13(go);\n\n:: lexer\n\n'a': /a/\n'b': /b/\n'c': /c/\n\n:: parser\n\n%input In;\n\n")
		}
		for k := 0; k < nn; k++ {
			if typed && k > 0 {
				fmt.Fprintf(&sb, "%s {int} :\n", n13NT[k])
			} else {
				fmt.Fprintf(&sb, "%s :\n", n13NT[k])
			}
			for a := 0; a < 1+r.Intn(3); a++ {
				alt := &n13{kind: 's'}
				for j := 0; j < 1+r.Intn(3); j++ {
					alt.sub = append(alt.sub, n13Rand(r, 2, nn))
				}
				if k == 0 && a == 0 {
					alt.sub = append(alt.sub, &n13{kind: 'n', nt: 1 + r.Intn(nn-1)})
				}
				if r.Intn(4) == 0 {
					alt.arrow = "Node"
				}
				if r.Intn(12) == 0 && a > 0 {
					alt = &n13{kind: 's'}
				}
				trees[k] = append(trees[k], alt)
				sep := "    "
				if a > 0 {
					sep = "  | "
				}
				sb.WriteString(sep + alt.render(true) + "\n")
			}
			// a terminal alternative keeps every nonterminal productive
			last := &n13{kind: 's', sub: []*n13{{kind: 't', term: 1 + r.Intn(3)}}}
			trees[k] = append(trees[k], last)
			sb.WriteString("  | " + last.render(true) + "\n;\n\n")
		}
		text := sb.String()
		if trace != "" {
			os.WriteFile(trace, []byte(text), 0o644)
		}
		gr, err := Compile(context.Background(), "g13.tm", text, Params{CheckOnly: true})
		fatal := ""
		if err != nil {
			for _, e := range status.FromError(err) {
				if !strings.Contains(e.Msg, "conflict") && !strings.Contains(e.Msg, "input:") {
					fatal = e.Msg
					break
				}
			}
		}
		if fatal != "" || gr == nil || gr.Parser == nil || len(gr.Parser.Rules) == 0 {
			ck.Case(false)
			k := fatal
			if len(k) > 50 {
				k = k[:50]
			}
			if typed {
				k = "cc: " + k
			}
			rejected[k]++
			continue
		}
		ck.Case(true)
		if i < 3 {
			ck.Sample(strings.ReplaceAll(text[strings.Index(text, "%input"):], "\n", " "))
		}
		ref := &g14cfg{nterm: 4, rules: map[int][][]int{}, next: 4 + nn}
		ntSym := func(k int) int { return 4 + k }
		for k := 0; k < nn; k++ {
			var alts [][]int
			for _, a := range trees[k] {
				alts = append(alts, a.alts(ref, ntSym)...)
			}
			ref.rules[4+k] = alts
		}
		got := &g14cfg{nterm: gr.NumTokens, rules: map[int][][]int{}}
		for _, rule := range gr.Parser.Rules {
			var rhs []int
			for _, s := range rule.RHS {
				if !s.IsStateMarker() {
					rhs = append(rhs, int(s))
				}
			}
			got.rules[int(rule.LHS)] = append(got.rules[int(rule.LHS)], rhs)
		}
		tmap := map[int]int{}
		for t := 1; t <= 3; t++ {
			for si, sym := range gr.Syms[:gr.NumTokens] {
				if sym.Name == g14Terms[t] {
					tmap[t] = si
				}
			}
		}
		gstart := gr.NumTokens + gr.Parser.Inputs[0].Nonterm
		for _, w := range words {
			mw := make([]int, len(w))
			for k, t := range w {
				mw[k] = tmap[t]
			}
			if x, y := ref.accepts(4, w), got.accepts(gstart, mw); x != y {
				var rules []string
				for _, rule := range gr.Parser.Rules {
					var rhs []string
					for _, s := range rule.RHS {
						if !s.IsStateMarker() {
							rhs = append(rhs, gr.Syms[s].Name)
						}
					}
					rules = append(rules, gr.Syms[rule.LHS].Name+": "+strings.Join(rhs, " "))
				}
				ck.Failf(text, "terminals %v from In: the notation denotes it = %v, the compiled rules derive it = %v\ncompiled rules: %s", w, x, y, strings.Join(rules, "; "))
				break
			}
		}
	}
	if trace != "" {
		os.Remove(trace)
	}
	ck.Samples = append(ck.Samples, fmt.Sprintf("rejected by the compiler (message prefix -> count): %v", rejected))
	if ck.Nontrivial < n/10 {
		ck.Failf(fmt.Sprint(rejected), "only %d of %d generated grammars compiled: the harness explores too little", ck.Nontrivial, n)
	}
	vWrite(t, []string{"grammars rejected for reasons other than LALR conflicts (e.g. nullable list elements) are skipped"}, ck)
}
