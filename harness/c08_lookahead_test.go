package lalr

// Bounded executable contract for runtime lookahead decision lists (C08).

import (
	"fmt"
	"testing"
)

type c08alt []Predicate

func c08alts() []c08alt {
	var out []c08alt
	var rec func(used int, cur c08alt)
	rec = func(used int, cur c08alt) {
		if len(cur) > 0 {
			out = append(out, append(c08alt(nil), cur...))
		}
		for in := 0; in < 3; in++ {
			if used&(1<<uint(in)) != 0 {
				continue
			}
			for _, neg := range []bool{false, true} {
				rec(used|1<<uint(in), append(cur, Predicate{Input: int32(in), Negated: neg}))
			}
		}
	}
	rec(0, nil)
	return out
}

func c08holds(a c08alt, v int) bool {
	for _, p := range a {
		val := v&(1<<uint(p.Input)) != 0
		if val == p.Negated {
			return false
		}
	}
	return true
}

func c08consistent(set []c08alt) bool {
	before := map[[2]int32]bool{}
	for _, a := range set {
		for i := range a {
			for j := i + 1; j < len(a); j++ {
				before[[2]int32{a[i].Input, a[j].Input}] = true
			}
		}
	}
	for k := range before {
		if before[[2]int32{k[1], k[0]}] {
			return false
		}
	}
	return true
}

func c08check(ck *vCheck, set []c08alt) {
	var las []Lookahead
	for i, a := range set {
		las = append(las, Lookahead{Nonterminal: Sym(100 + i), Predicates: append([]Predicate(nil), a...), Origin: hNode("la")})
	}
	desc := fmt.Sprint(set)
	var rule LookaheadRule
	var err error
	if p := vRecover(func() { rule, err = newLookaheadRule(append([]Lookahead(nil), las...)) }); p != "" {
		ck.Failf(desc, "newLookaheadRule panicked: %s", p)
		return
	}
	exclusive := true
	for v := 0; v < 8; v++ {
		n := 0
		for _, a := range set {
			if c08holds(a, v) {
				n++
			}
		}
		if n > 1 {
			exclusive = false
		}
	}
	ck.Case(err == nil)
	if err != nil {
		return
	}
	if !exclusive {
		ck.Failf(desc, "alternatives are not mutually exclusive but were accepted: %+v", rule)
		return
	}
	if !c08consistent(set) {
		ck.Failf(desc, "alternatives list their predicates in inconsistent order but were accepted: %+v", rule)
		return
	}
	for v := 0; v < 8; v++ {
		want := Sym(-1)
		n := 0
		for i, a := range set {
			if c08holds(a, v) {
				n++
				want = Sym(100 + i)
			}
		}
		if n != 1 {
			continue
		}
		got := rule.DefaultTarget
		for _, c := range rule.Cases {
			val := v&(1<<uint(c.Input)) != 0
			if val != c.Negated {
				got = c.Target
				break
			}
		}
		if got != want {
			ck.Failf(desc, "predicate outcomes %03b satisfy only alternative %d but the decision list %+v selects %d", v, int(want)-100, rule, int(got)-100)
			return
		}
	}
}

func TestVerifC08(t *testing.T) {
	ex := vNew("C08/decision-list", "all ordered sets of 2 and 3 alternatives over 3 predicate inputs (each alternative an ordered conjunction of 1..3 literals: 78 alternatives), all 8 truth assignments", true,
		"newLookaheadRule", "pickLookahead", "Lookahead.Accepts")
	alts := c08alts()
	for _, a := range alts {
		for _, b := range alts {
			c08check(ex, []c08alt{a, b})
		}
	}
	step := 1
	if vTier() != "thorough" {
		step = 5
	}
	cnt := 0
	for _, a := range alts {
		for _, b := range alts {
			for _, c := range alts {
				cnt++
				if cnt%step != 0 {
					continue
				}
				c08check(ex, []c08alt{a, b, c})
			}
		}
	}
	ex.Exhaustive = step == 1
	ex.Sample("[[{0 false} {1 false}] [{0 false} {1 true}] [{0 true}]]")
	rnd := vNew("C08/decision-list-4", "seeded sets of 4 alternatives over 3 inputs", false, "newLookaheadRule", "pickLookahead")
	r := vNewRand(vSeed() + 23)
	for i := 0; i < hCount(200000, 3000000); i++ {
		set := []c08alt{alts[r.Intn(len(alts))], alts[r.Intn(len(alts))], alts[r.Intn(len(alts))], alts[r.Intn(len(alts))]}
		if i < 2 {
			rnd.Sample(fmt.Sprint(set))
		}
		c08check(rnd, set)
	}
	vWrite(t, []string{"the decision list is interpreted as in the generated code: cases in order (take the target of the first case whose predicate has the stated outcome), then DefaultTarget"}, ex, rnd)
}
