package simple

// Bounded executable contract for C01 on a SHIPPED generated parser with plain (uncompressed) tables:
// parsers/simple is generated from go_parser.go.tmpl without optimizeTables, so it runs the
// template's non-optimized parse loop - the one the table interpreter of the lalr checks only
// transcribes. The grammar is small enough for an exact oracle:
//
//	input : 'simple' (Xyz | 'b') | Xyz+ | Foo+ | Bar+ ;   Foo: 'b'  Bar: 'a'  Xyz: 'c'
//
// i.e. the sentences are  simple c | simple b | c+ | b+ | a+ . For every token string up to the
// bound the parser must accept exactly the sentences and report a syntax error at the first token
// that makes the consumed prefix impossible to complete (the end of input if the text is a proper
// prefix of a sentence).

import (
	"fmt"
	"strings"
	"testing"
)

func c01simpleViable(w []string) bool { // is w a prefix of some sentence?
	if len(w) == 0 {
		return true
	}
	switch w[0] {
	case "simple":
		return len(w) == 1 || len(w) == 2 && (w[1] == "c" || w[1] == "b")
	case "a", "b", "c":
		for _, t := range w {
			if t != w[0] {
				return false
			}
		}
		return true
	}
	return false
}

func c01simpleSentence(w []string) bool {
	if len(w) == 0 {
		return false
	}
	if w[0] == "simple" {
		return len(w) == 2 && (w[1] == "c" || w[1] == "b")
	}
	return c01simpleViable(w)
}

func TestVerifC01Simple(t *testing.T) {
	ck := vNew("C01/shipped-plain-table-parser", "the shipped parsers/simple parser (generated without optimizeTables) on all strings of <=5 tokens over {simple, a, b, c} with single and multiple blanks: accept exactly the sentences, syntax error at the first offending token", true,
		"Parser.parse", "Parser.fetchNext", "gotoState", "lalr")
	toks := []string{"simple", "a", "b", "c"}
	var rec func(cur []string)
	rec = func(cur []string) {
		for _, sep := range []string{" ", "  \n"} {
			src := strings.Join(cur, sep)
			ck.Case(len(cur) > 0)
			// offsets of the tokens in src
			var offs []int
			pos := 0
			for i, w := range cur {
				if i > 0 {
					pos += len(sep)
				}
				offs = append(offs, pos)
				pos += len(w)
			}
			wantOK := c01simpleSentence(cur)
			wantOff := len(src) // end of input
			for i := range cur {
				if !c01simpleViable(cur[:i+1]) {
					wantOff = offs[i]
					break
				}
			}
			var l Lexer
			var p Parser
			l.Init(src)
			p.Init(func(NodeType, int, int) {})
			var err error
			if pm := vRecover(func() { err = p.Parse(&l) }); pm != "" {
				ck.Failf(fmt.Sprintf("%q", src), "parser panicked: %s", pm)
				continue
			}
			if (err == nil) != wantOK {
				ck.Failf(fmt.Sprintf("%q", src), "parser accepts = %v, the grammar says %v (error %v)", err == nil, wantOK, err)
				continue
			}
			if err != nil {
				se, ok := err.(SyntaxError)
				if !ok {
					ck.Failf(fmt.Sprintf("%q", src), "error %v is not a SyntaxError", err)
					continue
				}
				if se.Offset != wantOff {
					ck.Failf(fmt.Sprintf("%q", src), "syntax error reported at offset %d, the first offending token starts at offset %d", se.Offset, wantOff)
				}
			}
		}
		if len(cur) == 5 {
			return
		}
		for _, w := range toks {
			rec(append(append([]string(nil), cur...), w))
		}
	}
	rec(nil)
	ck.Sample(`"simple c"`)
	ck.Sample(`"c c b"`)
	vWrite(t, []string{"oracle: the five sentence shapes of simple.tm written out by hand"}, ck)
}
