package gen

// C11 (bounded): Go lexers GENERATED from verification grammars tokenize as the rules specify.
//
// For seeded lexer grammars (random pattern trees from lexgen, 1..2 exclusive start conditions
// switched by rule actions, a (space) rule, a (class) rule with keywords, priorities, rune and byte
// modes, case folding) the real pipeline (tm parser -> compiler -> lexer tables -> go_lexer
// templates) writes a Go package; all packages are built into one driver program, which is run on
// every text of <=3 symbols over the probe alphabet plus seeded longer texts. The token stream
// (token, byte range, line, column) is compared with the stream computed from the rule trees.

import (
	"context"
	enchex "encoding/hex"
	"encoding/json"
	"fmt"
	"os"
	"os/exec"
	"path/filepath"
	"strings"
	"testing"
	"time"

	"github.com/inspirer/textmapper/status"
)

type c11Tok struct {
	Name string `json:"n"`
	S    int    `json:"s"`
	E    int    `json:"e"`
	Line int    `json:"l"`
	Col  int    `json:"c"`
}

type c11Grammar struct {
	idx       int
	m         lgMode
	nsc       int
	rules     []lgRule // act = rule index + 1
	names     []string
	space     []bool
	switchTo  []int
	classRule int
	kw        map[string]string
	text      string
	universe  []rune
	inline    bool
}

type c11DirWriter struct{ dir string }

func (w c11DirWriter) Write(filename, content string) error {
	p := filepath.Join(w.dir, filename)
	if err := os.MkdirAll(filepath.Dir(p), 0o755); err != nil {
		return err
	}
	return os.WriteFile(p, []byte(content), 0o644)
}

func c11Lit(s string) *lgNode {
	n := &lgNode{kind: lgCat}
	for _, c := range s {
		n.sub = append(n.sub, &lgNode{kind: lgSet, spelling: string(c), cls: lgClass{items: [][2]rune{{c, c}}}})
	}
	if len(n.sub) == 1 {
		return n.sub[0]
	}
	return n
}

// c11Nullable reports whether n matches the empty text.
func c11Nullable(n *lgNode) bool {
	switch n.kind {
	case lgSet:
		return false
	case lgCat:
		for _, s := range n.sub {
			if !c11Nullable(s) {
				return false
			}
		}
		return true
	case lgAlt:
		for _, s := range n.sub {
			if c11Nullable(s) {
				return true
			}
		}
		return false
	}
	return n.min == 0 || c11Nullable(n.sub[0])
}

// keywords specialised from the (class) rule, written literally in the grammar
var c11Keywords = []string{"ab", "a", "A0", "ba_", "aab", "0", "é", "aé", "éb"}

// c11KwKey is the symbol sequence of keyword w as a string of symbols (bytes in byte mode).
func c11KwKey(w string, m lgMode) string {
	if !m.bytes {
		return w
	}
	var rs []rune
	for i := 0; i < len(w); i++ {
		rs = append(rs, rune(w[i]))
	}
	return string(rs)
}

func c11Pattern(n *lgNode) string {
	return strings.ReplaceAll(n.lgRender(), " ", `\x20`)
}

// c11Gen draws one grammar.
func c11Gen(r *vRand, idx int) *c11Grammar {
	g := &c11Grammar{idx: idx, classRule: -1, kw: map[string]string{}}
	g.m = lgMode{fold: idx%5 == 3, bytes: idx%2 == 1}
	g.universe = lgAlphabet(g.m)
	if !g.m.bytes {
		// the runes right after sigma and Sigma: a generated mapRune that takes the exclusive end of a
		// compressed range for a member (seeded change C11-r8m1) classifies them as sigma / Sigma
		g.universe = append(g.universe, 0x3c4, 0x3a4)
	}
	g.nsc = 1
	if idx%3 == 0 {
		g.nsc = 2
	}
	withClass := !g.m.fold && idx%4 != 2 && idx%11 != 5
	allSC := []int{0}
	if g.nsc == 2 {
		allSC = []int{0, 1}
	}
	add := func(name string, nd *lgNode, prec int, scs []int, space bool, sw int) int {
		g.rules = append(g.rules, lgRule{node: nd, prec: prec, act: len(g.rules) + 1, scs: scs})
		g.names = append(g.names, name)
		g.space = append(g.space, space)
		g.switchTo = append(g.switchTo, sw)
		return len(g.rules) - 1
	}
	// a space rule: blanks and newlines; in every third grammar blanks only, so that a newline is
	// (unless another rule happens to take it) an invalid token of one character and the lexer
	// crosses it by its forced one-character progress (seeded change C11-r13m1: wrong columns after it)
	sp := &lgNode{kind: lgRep, min: 1, max: -1, sub: []*lgNode{{kind: lgSet, spelling: `[ \n]`, cls: lgClass{items: [][2]rune{{' ', ' '}, {'\n', '\n'}}}}}}
	if idx%3 == 1 {
		sp = &lgNode{kind: lgRep, min: 1, max: -1, sub: []*lgNode{{kind: lgSet, spelling: `[ ]`, cls: lgClass{items: [][2]rune{{' ', ' '}}}}}}
	}
	add("WS", sp, 0, allSC, true, -1)
	if withClass {
		// identifiers include non-ASCII letters: é and σ as runes, the two bytes of é in byte mode
		spelling, items := `[abA0_éσ]`, [][2]rune{{'a', 'a'}, {'b', 'b'}, {'A', 'A'}, {'0', '0'}, {'_', '_'}, {'é', 'é'}, {'σ', 'σ'}}
		if g.m.bytes {
			spelling, items = `[abA0_\xc3\xa9]`, [][2]rune{{'a', 'a'}, {'b', 'b'}, {'A', 'A'}, {'0', '0'}, {'_', '_'}, {0xc3, 0xc3}, {0xa9, 0xa9}}
		}
		cls := &lgNode{kind: lgRep, min: 1, max: -1, sub: []*lgNode{{kind: lgSet, spelling: spelling, cls: lgClass{items: items}}}}
		g.classRule = add("IDENT", cls, 0, allSC, false, -1)
		for k := 0; k < 1+r.Intn(3); k++ {
			w := c11Keywords[r.Intn(len(c11Keywords))]
			if _, dup := g.kw[c11KwKey(w, g.m)]; !dup {
				g.kw[c11KwKey(w, g.m)] = fmt.Sprintf("KW%d", len(g.kw))
			}
		}
	}
	nr := 1 + r.Intn(4)
	if withClass && r.Intn(2) == 0 {
		// a constant rule of which the (class) rule matches a proper prefix only: it is an ordinary
		// token, not a keyword of the class
		add("PFX", c11Lit([]string{"ab 0", "a b", "0_ a", "A0 ab"}[r.Intn(4)]), 0, allSC, false, -1)
	}
	for k := 0; k < nr; k++ {
		var scs []int
		for sc := 0; sc < g.nsc; sc++ {
			if r.Intn(2) == 0 {
				scs = append(scs, sc)
			}
		}
		if len(scs) == 0 {
			scs = []int{r.Intn(g.nsc)}
		}
		sw := -1
		if g.nsc == 2 && r.Intn(2) == 0 {
			sw = r.Intn(2)
		}
		// distinct priorities: rules that accept the same text at the same priority are rejected
		// by the compiler. Positive ones beat the (space) and (class) rules at equal length; without
		// a (class) rule (whose constant competitors become its keywords) negative ones are used too.
		prec := k + 1
		if !withClass && r.Intn(3) == 0 {
			prec = -(k + 1)
		}
		nd := lgRandNode(r, 2, g.m, g.universe)
		if c11Nullable(nd) {
			nd = &lgNode{kind: lgCat, sub: []*lgNode{nd, lgRandSet(r, g.m, g.universe)}}
		}
		add(fmt.Sprintf("TOK%d", k), nd, prec, scs, r.Intn(6) == 0, sw)
	}
	if !withClass && idx%11 == 5 {
		// a family aimed at backtracking next to an explicit invalid_token rule: NUM: x+, LONG: x+ y z+,
		// invalid_token: x+ y  (after "x.. y" the lexer has passed the end of NUM; LONG may still fail)
		sym := func(c rune) *lgNode {
			return &lgNode{kind: lgSet, spelling: string(c), cls: lgClass{items: [][2]rune{{c, c}}}}
		}
		plus := func(n *lgNode) *lgNode { return &lgNode{kind: lgRep, min: 1, max: -1, sub: []*lgNode{n}} }
		x, y, z := 'a', 'b', '0'
		if idx%2 == 0 {
			x, y, z = '0', 'a', 'b'
		}
		g.rules, g.names, g.space, g.switchTo = g.rules[:1], g.names[:1], g.space[:1], g.switchTo[:1]
		add("NUM", plus(sym(x)), 1, allSC, false, -1)
		add("LONG", &lgNode{kind: lgCat, sub: []*lgNode{plus(sym(x)), sym(y), plus(sym(z))}}, 2, allSC, false, -1)
		add("invalid_token", &lgNode{kind: lgCat, sub: []*lgNode{plus(sym(x)), sym(y)}}, 3, allSC, false, -1)
		add("OTHER", plus(sym('_')), 4, allSC, false, -1)
	}
	// sometimes the grammar gives invalid_token a pattern of its own: an ordinary rule that reports
	// INVALID_TOKEN over its match (such grammars must not be compiled in the inlined form)
	explicitInvalid := -1
	if !withClass && idx%3 == 1 && idx%11 != 5 {
		nd := lgRandNode(r, 2, g.m, g.universe)
		if c11Nullable(nd) {
			nd = &lgNode{kind: lgCat, sub: []*lgNode{nd, lgRandSet(r, g.m, g.universe)}}
		}
		explicitInvalid = add("invalid_token", nd, nr+2, allSC, false, -1)
	}
	g.inline = true
	var sb strings.Builder
	fmt.Fprintf(&sb, "language lex%d(go);\n\nlang = \"lex%d\"\npackage = \"vmod/lex%d\"\neventBased = true\ngenParser = false\ntokenLine = true\ntokenColumn = true\n", idx, idx, idx)
	if g.m.bytes {
		sb.WriteString("scanBytes = true\n")
	}
	if g.m.fold {
		sb.WriteString("caseInsensitive = true\n")
	}
	sb.WriteString("\n:: lexer\n\n")
	if g.nsc == 2 {
		sb.WriteString("%x other;\n\n")
	}
	scName := []string{"initial", "other"}
	stName := []string{"StateInitial", "StateOther"}
	if explicitInvalid < 0 && !(!withClass && idx%11 == 5) {
		sb.WriteString("invalid_token:\n")
	}
	sb.WriteString("error:\n\n")
	for i, ru := range g.rules {
		if g.nsc == 2 {
			var ns []string
			for _, s := range ru.scs {
				ns = append(ns, scName[s])
			}
			fmt.Fprintf(&sb, "<%s> ", strings.Join(ns, ", "))
		}
		fmt.Fprintf(&sb, "%s: /%s/", g.names[i], c11Pattern(ru.node))
		if ru.prec != 0 {
			fmt.Fprintf(&sb, " %d", ru.prec)
		}
		if g.space[i] {
			sb.WriteString(" (space)")
		}
		if i == g.classRule {
			sb.WriteString(" (class)")
		}
		if g.switchTo[i] >= 0 {
			fmt.Fprintf(&sb, " { l.State = %s }", stName[g.switchTo[i]])
			g.inline = false
		}
		sb.WriteString("\n")
		if i == g.classRule {
			for _, w := range c11Keywords {
				if name, ok := g.kw[c11KwKey(w, g.m)]; ok {
					if g.nsc == 2 {
						sb.WriteString("<initial, other> ")
					}
					fmt.Fprintf(&sb, "%s: /%s/\n", name, w)
				}
			}
		}
	}
	g.text = sb.String()
	return g
}

// c11Inv: how the invalid symbol is spelled in the texts of this grammar: 0xff, or (every other
// grammar) a stray continuation byte 0x80 - both must decode to U+FFFD, width 1.
func c11Inv(g *c11Grammar) byte {
	if g.idx%2 == 1 {
		return 0x80
	}
	return 0xff
}

// c11Spec is the specified token stream of the symbol sequence text.
func c11Spec(g *c11Grammar, text []rune) []c11Tok {
	src, offs := lgEncodeInv(text, g.m, c11Inv(g))
	lc := func(off int) (int, int) {
		return 1 + strings.Count(src[:off], "\n"), off - (strings.LastIndexByte(src[:off], '\n') + 1) + 1
	}
	var out []c11Tok
	pos, sc := 0, 0
	for guard := 0; guard < 4*len(text)+8; guard++ {
		if pos == len(text) {
			l, c := lc(offs[pos])
			return append(out, c11Tok{"EOI", offs[pos], offs[pos], l, c})
		}
		rest := text[pos:]
		size, act := lgScan(g.rules, sc, rest, g.m, g.universe)
		l, c := lc(offs[pos])
		if size == 0 {
			viable := 0
			for k := 1; k <= len(rest); k++ {
				for _, ru := range g.rules {
					active := false
					for _, s := range ru.scs {
						active = active || s == sc
					}
					if active && ru.node.lgLive(rest[:k], 0, g.m, g.universe) {
						viable = k
					}
				}
				if viable != k {
					break
				}
			}
			if viable == 0 {
				viable = 1
			}
			out = append(out, c11Tok{"INVALID_TOKEN", offs[pos], offs[pos+viable], l, c})
			pos += viable
			continue
		}
		ri := act - 1
		name := g.names[ri]
		if name == "invalid_token" {
			name = "INVALID_TOKEN"
		}
		if ri == g.classRule {
			if kw, ok := g.kw[string(rest[:size])]; ok {
				name = kw
			}
		}
		start := pos
		pos += size
		if g.switchTo[ri] >= 0 {
			sc = g.switchTo[ri]
		}
		if g.space[ri] {
			continue
		}
		out = append(out, c11Tok{name, offs[start], offs[pos], l, c})
	}
	return append(out, c11Tok{Name: "SPEC-DID-NOT-TERMINATE"})
}

const c11DriverHead = `package main

import (
	"encoding/hex"
	"encoding/json"
	"fmt"
	"os"
%s
)

type Tok struct {
	Name string ` + "`json:\"n\"`" + `
	S    int    ` + "`json:\"s\"`" + `
	E    int    ` + "`json:\"e\"`" + `
	Line int    ` + "`json:\"l\"`" + `
	Col  int    ` + "`json:\"c\"`" + `
}

var runners = map[int]func(string) []Tok{}

func safe(f func(string) []Tok, src string) (out []Tok) {
	defer func() {
		if r := recover(); r != nil {
			out = append(out, Tok{Name: fmt.Sprint("PANIC: ", r)})
		}
	}()
	return f(src)
}

func main() {
	var in map[int][]string
	if err := json.NewDecoder(os.Stdin).Decode(&in); err != nil {
		fmt.Fprintln(os.Stderr, err)
		os.Exit(2)
	}
	out := map[int][][]Tok{}
	for g, inputs := range in {
		for _, h := range inputs {
			b, _ := hex.DecodeString(h)
			out[g] = append(out[g], safe(runners[g], string(b)))
		}
	}
	json.NewEncoder(os.Stdout).Encode(out)
}
`

const c11Runner = `
func init() {
	runners[%[1]d] = func(src string) []Tok {
		var l lex%[1]d.Lexer
		l.Init(src)
		var out []Tok
		for n := 0; n < 4*len(src)+8; n++ {
			t := l.Next()
			s, e := l.Pos()
			out = append(out, Tok{names%[1]d[t], s, e, l.Line(), l.Column()})
			if t == tok%[1]d.EOI {
				return out
			}
		}
		return append(out, Tok{Name: "NO-EOI"})
	}
}
`

func TestVerifC11(t *testing.T) {
	ck := vNew("C11/generated-lexers", "seeded lexer grammars (random pattern trees of depth <=2, (space) rule, (class) rule with 1..3 keywords, priorities -1..1, 1..2 exclusive start conditions switched by rule actions, runes/bytes, case folding) generated by the real pipeline, built and run on all texts of <=3 symbols over a 11..12 symbol probe alphabet (multi-byte runes, invalid UTF-8, newline) plus seeded texts of 4..10 symbols", false,
		"GenerateFile", "Generate", "compiler.Compile", "go_lexer.go.tmpl", "go_lexer_tables.go.tmpl", "go_token.go.tmpl")
	base := os.Getenv("VERIF_TMP")
	if base == "" {
		base = os.TempDir()
	}
	dir, err := os.MkdirTemp(base, "c11mod")
	if err != nil {
		t.Fatal(err)
	}
	defer os.RemoveAll(dir)
	r := vNewRand(vSeed() + 111)
	ng, nrand := 14, 150
	if vTier() == "thorough" {
		ng, nrand = 80, 1500
	}
	var gs []*c11Grammar
	rejected := 0
	for i := 0; len(gs) < ng && i < ng*4; i++ {
		g := c11Gen(r, i)
		w := c11DirWriter{filepath.Join(dir, fmt.Sprintf("lex%d", i))}
		w.Write(fmt.Sprintf("lex%d.tm", i), g.text)
		var gerr error
		pmsg := vRecover(func() {
			_, gerr = GenerateFile(context.Background(), filepath.Join(w.dir, fmt.Sprintf("lex%d.tm", i)), w, Options{})
		})
		if pmsg != "" {
			ck.Case(true)
			ck.Failf(g.text, "generation panicked: %s", pmsg)
			os.RemoveAll(w.dir)
			continue
		}
		if gerr != nil {
			// overlapping rules / empty matches are legitimately rejected
			ck.Case(false)
			rejected++
			if rejected <= 2 {
				var msgs []string
				for _, e := range status.FromError(gerr) {
					msgs = append(msgs, e.Msg)
				}
				ck.Sample("rejected: " + strings.Join(msgs, "; "))
			}
			os.RemoveAll(w.dir)
			continue
		}
		gs = append(gs, g)
	}
	if len(gs) < ng/2 {
		ck.Failf(nil, "only %d of the drawn grammars compiled (%d rejected): the harness explores too little", len(gs), rejected)
	}
	// the driver
	var imports, runners strings.Builder
	for _, g := range gs {
		fmt.Fprintf(&imports, "\tlex%[1]d \"vmod/lex%[1]d\"\n\ttok%[1]d \"vmod/lex%[1]d/token\"\n", g.idx)
		fmt.Fprintf(&runners, c11Runner, g.idx)
		// token names through the generated constants (String() shows the text of constant patterns)
		fmt.Fprintf(&runners, "var names%[1]d = map[tok%[1]d.Type]string{tok%[1]d.EOI: \"EOI\", tok%[1]d.INVALID_TOKEN: \"INVALID_TOKEN\", tok%[1]d.ERROR: \"ERROR\"", g.idx)
		seen := map[string]bool{"invalid_token": true} // an explicit invalid_token rule uses the predeclared constant
		for _, n := range g.names {
			if !seen[n] {
				seen[n] = true
				fmt.Fprintf(&runners, ", tok%d.%s: %q", g.idx, n, n)
			}
		}
		for _, n := range g.kw {
			fmt.Fprintf(&runners, ", tok%d.%s: %q", g.idx, n, n)
		}
		runners.WriteString("}\n")
	}
	top := c11DirWriter{dir}
	top.Write("go.mod", "module vmod\n\ngo 1.20\n")
	top.Write("cmd/drv/main.go", fmt.Sprintf(c11DriverHead, imports.String())+runners.String())
	// inputs
	inputs := map[int][]string{}
	texts := map[int][][]rune{}
	for _, g := range gs {
		all := lgTexts(g.universe, 3)
		for k := 0; k < nrand; k++ {
			var tx []rune
			for n := 4 + r.Intn(7); n > 0; n-- {
				tx = append(tx, g.universe[r.Intn(len(g.universe))])
			}
			all = append(all, tx)
		}
		texts[g.idx] = all
		for _, tx := range all {
			src, _ := lgEncodeInv(tx, g.m, c11Inv(g))
			inputs[g.idx] = append(inputs[g.idx], enchex.EncodeToString([]byte(src)))
		}
	}
	env := append(os.Environ(), "GOFLAGS=-mod=mod", "GOPROXY=off", "GOSUMDB=off", "GOTOOLCHAIN=local", "GOWORK=off")
	build := exec.Command("go", "build", "-o", filepath.Join(dir, "drv"), "./cmd/drv")
	build.Dir = dir
	build.Env = env
	if out, err := build.CombinedOutput(); err != nil {
		ck.Case(true)
		ck.Failf(nil, "the generated lexers do not build: %s", strings.TrimSpace(string(out)))
		vWrite(t, nil, ck)
		return
	}
	ctx, cancel := context.WithTimeout(context.Background(), 10*time.Minute)
	defer cancel()
	run := exec.CommandContext(ctx, filepath.Join(dir, "drv"))
	data, _ := json.Marshal(inputs)
	run.Stdin = strings.NewReader(string(data))
	run.Stderr = os.Stderr
	outData, err := run.Output()
	if err != nil {
		ck.Case(true)
		ck.Failf(nil, "the driver running the generated lexers failed or did not finish: %v", err)
		vWrite(t, nil, ck)
		return
	}
	var got map[int][][]c11Tok
	if err := json.Unmarshal(outData, &got); err != nil {
		t.Fatal(err)
	}
	for gi, g := range gs {
		bad := 0
		for k, tx := range texts[g.idx] {
			want := c11Spec(g, tx)
			ck.Case(len(tx) > 0)
			have := got[g.idx][k]
			if fmt.Sprint(want) != fmt.Sprint(have) {
				src, _ := lgEncodeInv(tx, g.m, c11Inv(g))
				ck.Failf(map[string]interface{}{"grammar": g.text, "input": src}, "generated lexer (inline=%v, bytes=%v, fold=%v, %d start conditions) on %q returns %v, the rules specify %v", g.inline, g.m.bytes, g.m.fold, g.nsc, src, have, want)
				if bad++; bad >= 2 {
					break
				}
			}
		}
		if gi < 2 {
			ck.Sample(strings.ReplaceAll(g.text[strings.Index(g.text, ":: lexer"):], "\n", " | "))
		}
	}
	vWrite(t, []string{"token streams are specified from the generated pattern trees (longest match, priority, keyword specialisation of the (class) rule, (space) rules skipped, invalid token over the longest viable prefix and at least one symbol, start condition switched by the matched rule's action)",
		"lexer grammars outside the generator's shapes ({eoi}, named patterns, inclusive %s conditions, custom action code other than state switches) are not explored by this check"}, ck)
}
