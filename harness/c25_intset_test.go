package container

// Bounded executable contract for IntSet algebra (C25): exhaustive over a small universe.

import (
	"fmt"
	"testing"
)

// universe {0,1,2,3} plus REST (every other integer); a set is a 5-bit mask.
const c25U = 4

func c25mask(s IntSet) (uint, bool) {
	var m uint
	for i, v := range s.Set {
		if v < 0 || v >= c25U {
			return 0, false
		}
		if i > 0 && s.Set[i-1] >= v {
			return 0, false // not strictly sorted
		}
		m |= 1 << uint(v)
	}
	if s.Inverse {
		m = ^m & (1<<(c25U+1) - 1)
	}
	return m, true
}

func c25sets() []IntSet {
	var out []IntSet
	for m := 0; m < 1<<c25U; m++ {
		var s []int
		for v := 0; v < c25U; v++ {
			if m&(1<<uint(v)) != 0 {
				s = append(s, v)
			}
		}
		out = append(out, IntSet{Set: s}, IntSet{Inverse: true, Set: s})
	}
	return out
}

func TestVerifC25IntSet(t *testing.T) {
	ck := vNew("C25/intset-algebra", "all pairs of finite/co-finite sets over {0,1,2,3}, reuse buffers of capacity 0,2,8", true,
		"Merge", "Intersect", "IntSet.Complement", "IntSet.Equals", "IntSet.Empty", "IntSet.BitSet")
	sets := c25sets()
	full := uint(1<<(c25U+1) - 1)
	for _, a := range sets {
		for _, b := range sets {
			for _, rc := range []int{0, 2, 8} {
				ck.Case(true)
				ac := append([]int(nil), a.Set...)
				bc := append([]int(nil), b.Set...)
				am, _ := c25mask(a)
				bm, _ := c25mask(b)
				in := fmt.Sprintf("a=%v b=%v cap(reuse)=%d", a, b, rc)
				ck.Sample(in)
				u := Merge(a, b, make([]int, rc))
				um, ok := c25mask(u)
				if !ok || um != am|bm {
					ck.Failf(in, "Merge(%v,%v) = %v is not the union", a, b, u)
				}
				x := Intersect(a, b, make([]int, rc))
				xm, ok := c25mask(x)
				if !ok || xm != am&bm {
					ck.Failf(in, "Intersect(%v,%v) = %v is not the intersection", a, b, x)
				}
				if fmt.Sprint(a.Set) != fmt.Sprint(ac) || fmt.Sprint(b.Set) != fmt.Sprint(bc) {
					ck.Failf(in, "operands modified: a=%v (was %v) b=%v (was %v)", a.Set, ac, b.Set, bc)
				}
				if a.Equals(b) != (am == bm) {
					ck.Failf(in, "Equals(%v,%v) = %v", a, b, a.Equals(b))
				}
			}
		}
		cm, ok := c25mask(a.Complement())
		am, _ := c25mask(a)
		if !ok || cm != ^am&full {
			ck.Failf(fmt.Sprint(a), "Complement(%v) wrong", a)
		}
		if a.Empty() != (am == 0) {
			ck.Failf(fmt.Sprint(a), "Empty(%v) = %v", a, a.Empty())
		}
		for _, size := range []int{4, 5, 33, 64} {
			bs := a.BitSet(size)
			for i := 0; i < size; i++ {
				want := a.Inverse
				for _, v := range a.Set {
					if v == i {
						want = !a.Inverse
					}
				}
				if bs.Get(i) != want {
					ck.Failf(fmt.Sprintf("%v size=%d", a, size), "BitSet(%d).Get(%d) = %v, want %v", size, i, bs.Get(i), want)
				}
			}
		}
	}
	// aliasing: reuse buffer shared with an earlier result (the closure code reuses one buffer)
	buf := make([]int, 8)
	for _, a := range sets {
		for _, b := range sets {
			r1 := Merge(a, b, buf)
			m1, ok1 := c25mask(r1)
			keep := IntSet{Inverse: r1.Inverse, Set: append([]int(nil), r1.Set...)}
			r2 := Intersect(keep, a, make([]int, 8))
			m2, ok2 := c25mask(r2)
			am, _ := c25mask(a)
			ck.Case(true)
			if !ok1 || !ok2 || m2 != m1&am {
				ck.Failf(fmt.Sprintf("a=%v b=%v", a, b), "Intersect(Merge(a,b),a) != a∩(a∪b)")
			}
		}
	}
	vWrite(t, []string{"IntSet universe restricted to {0..3} + one representative for all other integers"}, ck)
}
