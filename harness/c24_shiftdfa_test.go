package shiftdfa

// Bounded executable contract for shift-DFA scanners (C24): whenever Compile accepts a rule set,
// Scanner.Scan agrees with the lexer tables built from the same rules on every byte string.

import (
	"fmt"
	"strings"
	"testing"

	"github.com/inspirer/textmapper/lex"
)

func c24tables(rules []Rule) (*lex.Tables, error) {
	var in []*lex.Rule
	for i, r := range rules {
		re, err := lex.ParseRegexp(r.Pattern, lex.CharsetOptions{ScanBytes: true})
		if err != nil {
			return nil, err
		}
		in = append(in, &lex.Rule{
			Pattern:         &lex.Pattern{Name: fmt.Sprintf("rule%v", i), RE: re, Text: r.Pattern, Origin: virtualNode{"rules", i}},
			Resolver:        resolver{},
			Precedence:      r.Precedence,
			Action:          r.Token,
			StartConditions: defaultSCs,
			Origin:          virtualNode{"rules", i},
		})
	}
	return lex.Compile(in, true, false)
}

func TestVerifC24(t *testing.T) {
	ck := vNew("C24/scanner-vs-tables", "seeded byte-mode rule sets (1..3 rules, pattern trees of depth <=2 over a probe alphabet with bytes 0x80 0xa9 0xc3 0xff, plus hand-written families around the 0x80 boundary and the 10/11-state limit); all byte strings of length <=4 (<=5 thorough) over {a b A 0 _ space \\n 0x7f 0x80 0xa9 0xc3 0xff}", false,
		"Pack", "Scanner.Scan", "Compile")
	r := vNewRand(vSeed() + 41)
	m := lgMode{bytes: true}
	universe := append(lgAlphabet(m), 0x7f)
	maxText := 4
	if vTier() == "thorough" {
		maxText = 5
	}
	texts := lgTexts(universe, maxText)
	var srcs []string
	for _, tx := range texts {
		s, _ := lgEncode(tx, m)
		srcs = append(srcs, s)
	}
	one := func(rules []Rule) {
		desc := fmt.Sprint(rules)
		var sc *Scanner
		var err error
		if p := vRecover(func() { sc, err = Compile(rules, Options{}) }); p != "" {
			ck.Case(true)
			ck.Failf(desc, "Compile panicked: %s", p)
			return
		}
		if err != nil {
			ck.Case(false)
			return
		}
		tb, terr := c24tables(rules)
		if terr != nil {
			ck.Case(true)
			ck.Failf(desc, "shift-DFA accepted the rules but lex.Compile fails: %v", terr)
			return
		}
		ck.Case(true)
		ck.Sample(desc)
		for _, src := range srcs {
			wantSize, wantTok := tb.Scan(0, src)
			var size int
			var tok uint8
			if p := vRecover(func() { size, tok = sc.Scan(src) }); p != "" {
				ck.Failf(desc, "Scan(%q) panicked: %s", src, p)
				return
			}
			if size != wantSize || int(tok) != wantTok {
				ck.Failf(desc, "Scan(%q) = (%d, token %d), lexer tables give (%d, token %d)", src, size, tok, wantSize, wantTok)
				return
			}
		}
	}
	n := 1500
	if vTier() == "thorough" {
		n = 30000
	}
	for i := 0; i < n; i++ {
		var rules []Rule
		for k := 0; k < 1+r.Intn(3); k++ {
			tok := 1 + r.Intn(31)
			if r.Intn(8) == 0 {
				tok = 30 + r.Intn(4) // around the 6-bit limit of a packed cell: 31 fits, 32 and 33 must be rejected
			}
			rules = append(rules, Rule{Pattern: lgRandNode(r, 2, m, universe).lgRender(), Token: tok, Precedence: r.Intn(3)})
		}
		one(rules)
	}
	// boundary families
	for _, fam := range [][]Rule{
		{{Pattern: `[\x80-\x8f]+`, Token: 1}, {Pattern: `[\x90-\xff]+`, Token: 2}, {Pattern: `a`, Token: 3}},
		{{Pattern: `[\x00-\x7f]+`, Token: 1}},
		{{Pattern: `[a-z]+`, Token: 31}, {Pattern: `[0-9]+`, Token: 30}},
		{{Pattern: `[a-z]+`, Token: 32}},
		{{Pattern: `[a-z]+`, Token: 33}, {Pattern: `[0-9]+`, Token: 32}},
		{{Pattern: `[^\x00-\x7f]+`, Token: 2}, {Pattern: `[a-z]+`, Token: 1}},
		{{Pattern: `[\x20-\x7f]`, Token: 4}, {Pattern: `[\x80-\xff]`, Token: 5}},
		{{Pattern: `[\x7f-\xff]+`, Token: 7}},
		{{Pattern: `[\x7f\x80]`, Token: 7}, {Pattern: `[\x81-\xff]`, Token: 8}},
		{{Pattern: `abcdefghij`, Token: 9}},
		{{Pattern: `abcdefghi`, Token: 31}},
		{{Pattern: `abcdefgh(ij)+`, Token: 3}},
		{{Pattern: `a|ab|abc|abcd`, Token: 30}, {Pattern: `b+`, Token: 17}},
		{{Pattern: `(a|b)*abb`, Token: 12}},
	} {
		one(fam)
	}
	// long inputs for the families with many states
	for _, src := range []string{"abcdefghijX", "abcdefghijij", "abcdefghi", "abcdefgh", strings.Repeat("ab", 20) + "b"} {
		for _, fam := range [][]Rule{{{Pattern: `abcdefghij`, Token: 9}}, {{Pattern: `abcdefgh(ij)+`, Token: 3}}, {{Pattern: `abcdefghi`, Token: 31}}, {{Pattern: `(a|b)*abb`, Token: 12}}} {
			sc, err := Compile(fam, Options{})
			if err != nil {
				continue
			}
			tb, terr := c24tables(fam)
			if terr != nil {
				continue
			}
			ck.Case(true)
			ws, wt := tb.Scan(0, src)
			gs, gt := sc.Scan(src)
			if gs != ws || int(gt) != wt {
				ck.Failf(fmt.Sprint(fam), "Scan(%q) = (%d, token %d), lexer tables give (%d, token %d)", src, gs, gt, ws, wt)
			}
		}
	}
	vWrite(t, []string{"reference = lex.Tables.Scan on tables built exactly as shiftdfa.Compile builds them; lex.Tables.Scan itself is checked against the specified semantics under C09"}, ck)
}
