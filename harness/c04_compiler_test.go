package compiler

// Bounded executable contract for C04 at the level of grammar text: the %left declarations and the
// %prec markers of a .tm grammar have to arrive in the LALR tables. The lalr-level checks build
// lalr.Grammar values directly and never pass through the front end (compiler/compiler.go,
// generateTables) that copies %prec into lalr.Rule.Precedence.
//
//	%left LOW; %left 'x'; %left HIGH;
//	input : A 'x' | 'x' 'y' ;      A : <body with %prec P on every alternative> ;
//
// In the initial state the parser can shift 'x' or reduce the empty alternative of A on 'x'. With
// P = HIGH the rule wins (reduce), with P = LOW the terminal wins (shift); either way precedence
// decides and no conflict is reported.

import (
	"context"
	"fmt"
	"strings"
	"testing"
)

func TestVerifC04Compiler(t *testing.T) {
	ck := vNew("C04/prec-from-grammar-text", "directed .tm grammars: %left LOW < 'x' < HIGH, A with an empty alternative written in 4 ways, every alternative marked %prec LOW or %prec HIGH; rule precedences, conflict counts and the action of the initial state on 'x'", true,
		"compiler.generateTables", "syntaxLoader.convertRules", "lalr.compiler.resolvePrec")
	bodies := []string{
		"'y'? %%prec %s",
		"%%empty %%prec %[1]s\n  | 'y' %%prec %[1]s",
		"('y' 'y')? %%prec %s",
		"('y' | 'z')? %%prec %s",
	}
	for _, prec := range []string{"HIGH", "LOW"} {
		for _, b := range bodies {
			body := fmt.Sprintf(b, prec)
			text := "language demo(go);\n\n:: lexer\n\n'x': /x/\n'y': /y/\n'z': /z/\nHIGH:\nLOW:\n\n:: parser\n\n%left LOW;\n%left 'x';\n%left HIGH;\n\ninput :\n    A 'x'\n  | 'x' 'y'\n;\n\nA :\n    " + body + "\n;\n"
			desc := "A: " + strings.ReplaceAll(body, "\n", " ")
			ck.Case(true)
			var fail string
			pm := vRecover(func() {
				g, err := Compile(context.Background(), "c04.tm", text, Params{})
				if err != nil {
					fail = fmt.Sprintf("the grammar is rejected: %v (precedence decides the only conflict)", err)
					return
				}
				x := -1
				for i, sym := range g.Syms[:g.NumTokens] {
					if sym.Name == "'x'" {
						x = i
					}
				}
				emptyRule := -1
				for i, r := range g.Parser.Rules {
					if g.Syms[r.LHS].Name != "A" {
						continue
					}
					if len(r.RHS) == 0 {
						emptyRule = i
					}
					if int(r.Precedence) <= 0 || int(r.Precedence) >= g.NumTokens || g.Syms[r.Precedence].Name != prec {
						fail = fmt.Sprintf("rule %d of A (%d symbols) carries precedence symbol %d, the alternative is marked %%prec %s", i, len(r.RHS), r.Precedence, prec)
						return
					}
				}
				if x < 0 || emptyRule < 0 {
					fail = "terminal 'x' or the empty rule of A not found in the compiled grammar"
					return
				}
				tb := g.Parser.Tables
				if tb.SR != 0 || tb.RR != 0 {
					fail = fmt.Sprintf("%d shift/reduce and %d reduce/reduce conflicts reported, precedence decides the only one", tb.SR, tb.RR)
					return
				}
				action := tb.Action[0]
				if action >= -2 {
					fail = fmt.Sprintf("the initial state does not look at the next token (action %d)", action)
					return
				}
				got := -2
				for i := -3 - action; tb.Lalr[i] >= 0; i += 2 {
					if tb.Lalr[i] == x {
						got = tb.Lalr[i+1]
					}
				}
				want := -1 // shift
				if prec == "HIGH" {
					want = emptyRule
				}
				if got != want {
					fail = fmt.Sprintf("initial state on 'x': table action %d, documented resolution %d (-1 = shift, otherwise the rule reduced)", got, want)
				}
			})
			if pm != "" {
				ck.Failf(text, "%s: Compile panicked: %s", desc, pm)
				continue
			}
			if fail != "" {
				ck.Failf(text, "%s: %s", desc, fail)
			}
		}
	}
	ck.Sample("A: 'y'? %prec HIGH")
	vWrite(t, []string{"oracle: Bison-style resolution written out for one conflict"}, ck)
}
