package compiler

// Bounded executable contract for C15 on nonterminals that are reachable from the input only
// through runtime lookaheads, positive or negated: their rules are part of the grammar the token
// sets are computed over (syntax/set.go, rules()), so first/last/any of such a nonterminal are the
// first/last/all terminals of the strings it derives. The family is directed: the lookahead targets
// have finite languages, the oracle enumerates them.

import (
	"context"
	"fmt"
	"sort"
	"strings"
	"testing"
)

type c15body struct {
	text string     // right-hand side as written
	lang [][]string // the strings it derives
}

func TestVerifC15Lookahead(t *testing.T) {
	ck := vNew("C15/lookahead-reachability", "directed grammars 'stmt: (?= <predicates over Blk, Cnd>) c | a' with Blk and Cnd (and a nonterminal Inner used by them) reachable only through the lookahead, 4 predicate forms x 4 x 4 bodies; named sets first/last/any of Blk and Cnd and a union with a terminal, against the enumerated languages", true,
		"syntax.ResolveSets", "syntax.rules", "Compile")
	inner := [][]string{{"d"}, {"b"}}
	bodies := []c15body{
		{"b c", [][]string{{"b", "c"}}},
		{"b | c d", [][]string{{"b"}, {"c", "d"}}},
		{"Inner c", [][]string{{"d", "c"}, {"b", "c"}}},
		{"a Inner | d", [][]string{{"a", "d"}, {"a", "b"}, {"d"}}},
	}
	_ = inner
	preds := []string{"Blk", "!Blk", "!Blk & Cnd", "Blk & !Cnd"}
	setOf := func(lang [][]string, which string) []string {
		m := map[string]bool{}
		for _, w := range lang {
			switch which {
			case "first":
				m[w[0]] = true
			case "last":
				m[w[len(w)-1]] = true
			default:
				for _, x := range w {
					m[x] = true
				}
			}
		}
		var out []string
		for x := range m {
			out = append(out, x)
		}
		sort.Strings(out)
		return out
	}
	for _, pred := range preds {
		for bi, bb := range bodies {
			for ci, cb := range bodies {
				usesC := strings.Contains(pred, "Cnd")
				if !usesC && ci > 0 {
					continue
				}
				var sb strings.Builder
				sb.WriteString("language parser(go);\n\n:: lexer\n\na: /a/\nb: /b/\nc: /c/\nd: /d/\n\n:: parser\n\n%input input;\n\n")
				want := map[string][]string{}
				decl := func(name, expr string, vals []string) {
					fmt.Fprintf(&sb, "%%generate %s = set(%s);\n", name, expr)
					want[name] = vals
				}
				decl("firstB", "first Blk", setOf(bb.lang, "first"))
				decl("lastB", "last Blk", setOf(bb.lang, "last"))
				decl("anyB", "Blk", setOf(bb.lang, "any"))
				u := append([]string{"a"}, setOf(bb.lang, "first")...)
				sort.Strings(u)
				var uu []string
				for i, x := range u {
					if i == 0 || x != u[i-1] {
						uu = append(uu, x)
					}
				}
				decl("mixB", "first Blk | a", uu)
				if usesC {
					decl("firstC", "first Cnd", setOf(cb.lang, "first"))
					decl("anyC", "Cnd", setOf(cb.lang, "any"))
				}
				fmt.Fprintf(&sb, "\ninput : stmt d ;\n\nstmt :\n    (?= %s) c\n  | a\n;\n\nBlk : %s ;\n\n", pred, bb.text)
				if usesC {
					fmt.Fprintf(&sb, "Cnd : %s ;\n\n", cb.text)
				}
				if strings.Contains(bb.text, "Inner") || usesC && strings.Contains(cb.text, "Inner") {
					sb.WriteString("Inner : d | b ;\n")
				}
				text := sb.String()
				desc := fmt.Sprintf("(?= %s)  Blk: %s  Cnd: %s", pred, bb.text, cb.text)
				_ = bi
				ck.Case(true)
				var g *grammarResult
				var err error
				pm := vRecover(func() {
					gr, e := Compile(context.Background(), "c15.tm", text, Params{CheckOnly: true})
					err = e
					if gr != nil {
						g = &grammarResult{}
						for _, s := range gr.Sets {
							var names []string
							for _, term := range s.Terminals {
								names = append(names, gr.Syms[term].Name)
							}
							sort.Strings(names)
							g.sets = append(g.sets, [2]string{s.Name, strings.Join(names, " ")})
						}
					}
				})
				if pm != "" {
					ck.Failf(text, "Compile panicked: %s", pm)
					continue
				}
				if err != nil || g == nil {
					ck.Failf(text, "%s: a well-formed grammar was rejected: %v", desc, err)
					continue
				}
				bad := false
				for _, s := range g.sets {
					w, ok := want[s[0]]
					if !ok {
						continue
					}
					if s[1] != strings.Join(w, " ") {
						ck.Failf(text, "%s: set %s resolves to {%s}, the rules of the lookahead nonterminals give {%s}", desc, s[0], s[1], strings.Join(w, " "))
						bad = true
						break
					}
					delete(want, s[0])
				}
				if len(want) > 0 && !bad {
					ck.Failf(text, "%s: named sets missing from the compiled grammar: %v", desc, want)
				}
			}
		}
	}
	ck.Sample("(?= !Blk & Cnd)  Blk: Inner c  Cnd: b | c d")
	vWrite(t, []string{"oracle: the finite languages of the lookahead nonterminals are written out by hand"}, ck)
}

type grammarResult struct {
	sets [][2]string
}
