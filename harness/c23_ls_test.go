package ls

// Bounded executable contracts for the language server (C23), sequential part: positions in both
// directions are (line, UTF-16 code unit) pairs, every change publishes the diagnostics of that
// version in request order with ranges inside the document, and go-to-definition answers from the
// latest content.

import (
	"context"
	"fmt"
	"strings"
	"testing"
	"unicode/utf8"

	lsp "go.lsp.dev/protocol"
	"go.lsp.dev/uri"
	"go.uber.org/zap"
)

type c23client struct {
	lsp.Client
	published []*lsp.PublishDiagnosticsParams
}

func (c *c23client) PublishDiagnostics(ctx context.Context, p *lsp.PublishDiagnosticsParams) error {
	c.published = append(c.published, p)
	return nil
}

// c23pos is the specified (line, UTF-16 column) of byte offset off.
func c23pos(content string, off int) lsp.Position {
	start := strings.LastIndexByte(content[:off], '\n') + 1
	var col uint32
	for _, r := range content[start:off] {
		col++
		if r > 0xffff {
			col++
		}
	}
	return lsp.Position{Line: uint32(strings.Count(content[:start], "\n")), Character: col}
}

// c23resolve is the specified inverse: byte offset of a position, ok=false if it does not exist.
func c23resolve(content string, pos lsp.Position) (int, bool) {
	off := 0
	for l := uint32(0); l < pos.Line; l++ {
		nl := strings.IndexByte(content[off:], '\n')
		if nl < 0 {
			return 0, false
		}
		off += nl + 1
	}
	col := uint32(0)
	for col < pos.Character {
		if off >= len(content) || content[off] == '\n' {
			return 0, false
		}
		r, w := utf8.DecodeRuneInString(content[off:])
		units := uint32(1)
		if r > 0xffff {
			units = 2
		}
		if col+units > pos.Character {
			return 0, false // inside a surrogate pair
		}
		col += units
		off += w
	}
	return off, true
}

const c23grammar = "language g(go);\n\n:: lexer\n\nid: /[a-z]+/\nnum: /[0-9]+/\nsp: /[ ]+/ (space)\n\n:: parser\n\ninput: PFX id num Tail;\nTail: num | id Tail;\n"

func TestVerifC23(t *testing.T) {
	in := vNew("C23/incoming-positions", "all contents of <=4 symbols over {a, newline, é (2 bytes), 中 (3 bytes), 😀 (4 bytes, 2 UTF-16 units)} x all positions line<=4, character<=6", true, "resolvePosition")
	syms := []string{"a", "\n", "é", "中", "\U0001F600"}
	var rec func(cur string, n int)
	rec = func(cur string, n int) {
		for line := uint32(0); line <= 4; line++ {
			for ch := uint32(0); ch <= 6; ch++ {
				in.Case(true)
				pos := lsp.Position{Line: line, Character: ch}
				want, ok := c23resolve(cur, pos)
				var got int
				var err error
				if p := vRecover(func() { got, err = resolvePosition(cur, pos) }); p != "" {
					in.Failf(fmt.Sprintf("%q %v", cur, pos), "resolvePosition panicked: %s", p)
					continue
				}
				if ok != (err == nil) || ok && got != want {
					in.Failf(fmt.Sprintf("%q line %d character %d", cur, line, ch), "resolvePosition = (%d, %v), the position is byte offset %d (exists=%v)", got, err, want, ok)
				}
			}
		}
		if n == 0 {
			return
		}
		for _, s := range syms {
			rec(cur+s, n-1)
		}
	}
	rec("", 4)
	in.Sample(`"a😀\n中" line 0 character 3`)

	// outgoing positions and the sequential document state machine
	st := vNew("C23/history", "seeded histories of 3..10 open/change/close/definition messages over 2 documents whose contents are ASCII variants of a small grammar (valid, with unresolved references, with syntax errors)", false,
		"Server.DidOpen", "Server.DidChange", "Server.DidClose", "Server.Definition", "Server.typecheck", "id.Location", "collectIDs")
	out := vNew("C23/outgoing-positions-non-ascii", "same grammar with a comment holding é / 中 / 😀 in front of identifiers and errors on the same line", false, "id.Location", "Server.typecheck")
	ctx := context.Background()
	variants := func(prefix string) []string {
		g := strings.Replace(c23grammar, "PFX", prefix, 1)
		return []string{
			g,
			strings.Replace(g, "id num Tail", "id nam Tail", 1),     // unresolved reference
			strings.Replace(g, "Tail: num", "Tail num", 1),          // syntax error
			strings.Replace(g, "num: /[0-9]+/", "num: /[0-9]+\\0a/", 1), // broken regexp
			g + "Extra: id id2 ;\n",                                 // unresolved
			g + "{\n  some code\n}\n",                               // syntax error on a token that spans lines
			g + "%expect\n 3;\n%expect\n    4;\n",                   // duplicate directive written over two lines
			strings.Replace(g, "language g(go);", "language g(\n go\n);", 1) + "Extra: id id2 ;\n",
			// a space terminal declared again without (space): the diagnostic has no attribute node to
			// point at and must still carry a range inside the document (seeded change C23-r11m2)
			strings.Replace(g, "sp: /[ ]+/ (space)\n", "sp: /[ ]+/ (space)\nsp: /[\\t]+/\n", 1),
			// documents as a client sends them while a semantic action is being typed: the text ends
			// inside the code block, at the places the hand-written block scanner looks one character
			// ahead (seeded change C23-r14m2: index out of range on a text ending in "{ /")
			g + "Extra: id { /",
			g + "Extra: id { // x",
			g + "Extra: id { /* x *",
			g + "Extra: id { '",
			g + "Extra: id { \"a\\",
			g + "Extra: id {",
		}
	}
	checkDiag := func(ck *vCheck, desc, content string, p *lsp.PublishDiagnosticsParams) {
		lines := strings.Split(content, "\n")
		for _, d := range p.Diagnostics {
			s, e := d.Range.Start, d.Range.End
			if int(s.Line) >= len(lines) || int(e.Line) >= len(lines) || s.Line > e.Line || s.Line == e.Line && s.Character > e.Character {
				ck.Failf(desc, "diagnostic %q has range %v outside the document", d.Message, d.Range)
				return
			}
			so, ok1 := c23resolve(content, s)
			eo, ok2 := c23resolve(content, e)
			if !ok1 || !ok2 {
				ck.Failf(desc, "diagnostic %q: range %v is not a valid (line, UTF-16 unit) range of the document", d.Message, d.Range)
				return
			}
			_ = so
			_ = eo
		}
	}
	r := vNewRand(vSeed() + 73)
	n := 300
	if vTier() == "thorough" {
		n = 5000
	}
	asciiDocs := variants("")
	for i := 0; i < n; i++ {
		cl := &c23client{}
		s := NewServer(zap.NewNop())
		s.SetClient(cl)
		uris := []lsp.DocumentURI{uri.File("/a.tm"), uri.File("/b.tm")}
		cur := map[lsp.DocumentURI]string{}
		ver := map[lsp.DocumentURI]int32{}
		var hist []string
		st.Case(true)
		bad := false
		for k := 0; k < 3+r.Intn(8) && !bad; k++ {
			u := uris[r.Intn(2)]
			_, open := cur[u]
			switch op := r.Intn(6); {
			case !open || op == 0 && !open:
				content := asciiDocs[r.Intn(len(asciiDocs))]
				ver[u]++
				hist = append(hist, fmt.Sprintf("open(%s,v%d)", u.Filename(), ver[u]))
				before := len(cl.published)
				if p := vRecover(func() {
					s.DidOpen(ctx, &lsp.DidOpenTextDocumentParams{TextDocument: lsp.TextDocumentItem{URI: u, Version: ver[u], Text: content}})
				}); p != "" {
					st.Failf(strings.Join(hist, " "), "DidOpen panicked: %s", p)
					bad = true
					break
				}
				cur[u] = content
				if len(cl.published) != before+1 || cl.published[before].URI != u || cl.published[before].Version != uint32(ver[u]) {
					st.Failf(strings.Join(hist, " "), "open did not publish exactly the diagnostics of version %d", ver[u])
					bad = true
					break
				}
				checkDiag(st, strings.Join(hist, " "), content, cl.published[before])
			case op <= 2:
				content := asciiDocs[r.Intn(len(asciiDocs))]
				if r.Intn(3) == 0 {
					content = cur[u] // an identical text is still a change of version
				}
				ver[u]++
				hist = append(hist, fmt.Sprintf("change(%s,v%d)", u.Filename(), ver[u]))
				before := len(cl.published)
				if p := vRecover(func() {
					s.DidChange(ctx, &lsp.DidChangeTextDocumentParams{
						TextDocument:   lsp.VersionedTextDocumentIdentifier{TextDocumentIdentifier: lsp.TextDocumentIdentifier{URI: u}, Version: ver[u]},
						ContentChanges: []lsp.TextDocumentContentChangeEvent{{Text: content}},
					})
				}); p != "" {
					st.Failf(strings.Join(hist, " "), "DidChange panicked: %s", p)
					bad = true
					break
				}
				cur[u] = content
				if len(cl.published) != before+1 || cl.published[before].URI != u || cl.published[before].Version != uint32(ver[u]) {
					st.Failf(strings.Join(hist, " "), "change to version %d did not publish exactly the diagnostics of that version (published %d message(s))", ver[u], len(cl.published)-before)
					bad = true
					break
				}
				checkDiag(st, strings.Join(hist, " "), content, cl.published[before])
				wantErr := content != asciiDocs[0]
				if wantErr != (len(cl.published[before].Diagnostics) > 0) {
					st.Failf(strings.Join(hist, " "), "version %d: diagnostics present = %v, the text has errors = %v (stale content?)", ver[u], !wantErr, wantErr)
					bad = true
				}
			case op == 3:
				hist = append(hist, fmt.Sprintf("close(%s)", u.Filename()))
				s.DidClose(ctx, &lsp.DidCloseTextDocumentParams{TextDocument: lsp.TextDocumentIdentifier{URI: u}})
				delete(cur, u)
			default:
				content := cur[u]
				// ask for the definition of the reference "id" in the input rule, at every cursor position touching it
				ref := strings.Index(content, "id n")
				decl := strings.Index(content, "id: /")
				if ref < 0 || decl < 0 {
					continue
				}
				hist = append(hist, fmt.Sprintf("definition(%s)", u.Filename()))
				for delta := 0; delta <= 2; delta++ {
					var got []lsp.Location
					var err error
					if p := vRecover(func() {
						got, err = s.Definition(ctx, &lsp.DefinitionParams{TextDocumentPositionParams: lsp.TextDocumentPositionParams{
							TextDocument: lsp.TextDocumentIdentifier{URI: u}, Position: c23pos(content, ref+delta)}})
					}); p != "" {
						st.Failf(strings.Join(hist, " "), "Definition panicked: %s", p)
						bad = true
						break
					}
					want := lsp.Range{Start: c23pos(content, decl), End: c23pos(content, decl+2)}
					if err != nil || len(got) != 1 || got[0].URI != u || got[0].Range != want {
						st.Failf(strings.Join(hist, " "), "Definition at %v = %v (err %v), want the declaration of 'id' at %v in the latest content", c23pos(content, ref+delta), got, err, want)
						bad = true
						break
					}
				}
			}
		}
		if i < 3 {
			st.Sample(strings.Join(hist, " "))
		}
	}
	// non-ASCII: outgoing positions must be UTF-16 units
	for _, pfx := range []string{"/* é */", "/* 中 */", "/* \U0001F600 */", "/* a\U0001F600é */"} {
		for vi, content := range variants(pfx) {
			out.Case(true)
			cl := &c23client{}
			s := NewServer(zap.NewNop())
			s.SetClient(cl)
			u := uri.File("/u.tm")
			desc := fmt.Sprintf("prefix %q variant %d", pfx, vi)
			if p := vRecover(func() {
				s.DidOpen(ctx, &lsp.DidOpenTextDocumentParams{TextDocument: lsp.TextDocumentItem{URI: u, Version: 1, Text: content}})
			}); p != "" {
				out.Failf(desc, "DidOpen panicked: %s", p)
				continue
			}
			out.Sample(desc)
			// incoming: cursor on the reference given in UTF-16 units; outgoing: the declaration range
			ref := strings.Index(content, "id n")
			decl := strings.Index(content, "id: /")
			if ref >= 0 && decl >= 0 {
				got, err := s.Definition(ctx, &lsp.DefinitionParams{TextDocumentPositionParams: lsp.TextDocumentPositionParams{
					TextDocument: lsp.TextDocumentIdentifier{URI: u}, Position: c23pos(content, ref+1)}})
				want := lsp.Range{Start: c23pos(content, decl), End: c23pos(content, decl+2)}
				if err != nil || len(got) != 1 || got[0].Range != want {
					out.Failf(desc, "Definition at %v = %v (err %v), want %v", c23pos(content, ref+1), got, err, want)
				}
				// and the reverse: definition asked on the declaration lists the reference with UTF-16 columns
				got2, _ := s.Definition(ctx, &lsp.DefinitionParams{TextDocumentPositionParams: lsp.TextDocumentPositionParams{
					TextDocument: lsp.TextDocumentIdentifier{URI: u}, Position: c23pos(content, decl+1)}})
				for _, loc := range got2 {
					so, ok := c23resolve(content, loc.Range.Start)
					if !ok || !strings.HasPrefix(content[so:], "id") {
						out.Failf(desc, "location %v of identifier 'id' is not a (line, UTF-16 unit) position of an 'id' in the document: outgoing columns are counted in bytes", loc.Range)
						break
					}
				}
			}
			for _, p := range cl.published {
				for _, d := range p.Diagnostics {
					so, ok := c23resolve(content, d.Range.Start)
					// the unresolved reference "nam"/"id2" and the error tokens sit after the non-ASCII prefix only in variant 1
					if vi == 1 {
						if !ok || !strings.HasPrefix(content[so:], "nam") {
							out.Failf(desc, "diagnostic %q starts at %v which is not the UTF-16 position of the offending text: outgoing columns are counted in bytes", d.Message, d.Range.Start)
						}
					}
				}
			}
		}
	}
	// identifiers that are themselves non-ASCII (quoted terminals): both ends of every location are
	// UTF-16 columns and enclose exactly the identifier (seeded change C23-r11m1 measured the end in bytes)
	qd := vNew("C23/non-ascii-identifiers", "a grammar with the quoted terminals 'é' and '😀' declared and referenced (also last on their line): every location returned for them, asked from a reference and from the declaration", false, "id.Location", "Server.Definition")
	{
		content := "language g(go);\n\n:: lexer\n\n'é': /e/\n'\U0001F600': /y/\nid: /[a-z]+/\n\n:: parser\n\ninput: id 'é' '\U0001F600' 'é'\n  | '\U0001F600';\n"
		cl := &c23client{}
		s := NewServer(zap.NewNop())
		s.SetClient(cl)
		u := uri.File("/q.tm")
		s.DidOpen(ctx, &lsp.DidOpenTextDocumentParams{TextDocument: lsp.TextDocumentItem{URI: u, Version: 1, Text: content}})
		for _, name := range []string{"'é'", "'\U0001F600'"} {
			decl := strings.Index(content, name+":")
			rule := strings.Index(content, "input:")
			for ref := rule; ; {
				k := strings.Index(content[ref:], name)
				if k < 0 {
					break
				}
				ref += k
				for _, at := range []int{decl + 1, ref + 1} {
					qd.Case(true)
					var got []lsp.Location
					var err error
					if p := vRecover(func() {
						got, err = s.Definition(ctx, &lsp.DefinitionParams{TextDocumentPositionParams: lsp.TextDocumentPositionParams{
							TextDocument: lsp.TextDocumentIdentifier{URI: u}, Position: c23pos(content, at)}})
					}); p != "" {
						qd.Failf(name, "Definition panicked: %s", p)
						continue
					}
					if err != nil || len(got) == 0 {
						qd.Failf(name, "Definition at byte %d = %v (err %v), want at least one location", at, got, err)
						continue
					}
					for _, loc := range got {
						so, ok1 := c23resolve(content, loc.Range.Start)
						eo, ok2 := c23resolve(content, loc.Range.End)
						if !ok1 || !ok2 || so > eo || content[so:eo] != name {
							qd.Failf(name, "location %v does not enclose exactly the identifier %s (it selects %q): a column is not in UTF-16 units", loc.Range, name, c23slice(content, so, eo, ok1 && ok2))
						}
					}
				}
				ref += len(name)
			}
		}
	}
	vWrite(t, []string{"handlers are called sequentially (no claim under concurrent delivery over the jsonrpc2 connection)"}, in, st, out, qd)
}

func c23slice(content string, so, eo int, ok bool) string {
	if !ok || so < 0 || eo > len(content) || so > eo {
		return "<not a position of the document>"
	}
	return content[so:eo]
}
