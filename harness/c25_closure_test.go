package set

// Bounded executable contract for Closure.Compute (C25): the result is the stratified least
// solution of the system, and an error is reported exactly when a complement lies on a cycle.

import (
	"fmt"
	"testing"

	"github.com/inspirer/textmapper/util/container"
)

type c25node struct {
	kind  byte // 'U' union (own set + edges), 'I' intersection, 'C' complement
	own   []int
	edges []int
}

// universe: values 0,1,2 and REST (bit 3) standing for every other integer.
const c25full = 0xf

func c25mask(s container.IntSet) (uint, bool) {
	var m uint
	for i, v := range s.Set {
		if v < 0 || v > 2 {
			return 0, false
		}
		if i > 0 && s.Set[i-1] >= v {
			return 0, false
		}
		m |= 1 << uint(v)
	}
	if s.Inverse {
		m = ^m & c25full
	}
	return m, true
}

// c25reference computes the stratified least solution; ok=false if a complement is on a cycle.
func c25reference(sys []c25node) (sol []uint, ok bool) {
	n := len(sys)
	reach := make([][]bool, n)
	for i := range reach {
		reach[i] = make([]bool, n)
		for _, e := range sys[i].edges {
			reach[i][e] = true
		}
	}
	for k := 0; k < n; k++ {
		for i := 0; i < n; i++ {
			for j := 0; j < n; j++ {
				if reach[i][k] && reach[k][j] {
					reach[i][j] = true
				}
			}
		}
	}
	for i, nd := range sys {
		if nd.kind == 'C' && reach[i][i] {
			return nil, false
		}
	}
	sol = make([]uint, n)
	done := make([]bool, n)
	for cnt := 0; cnt < n; {
		// pick a node all of whose dependencies outside its SCC are done
		for i := 0; i < n; i++ {
			if done[i] {
				continue
			}
			ready := true
			for j := 0; j < n; j++ {
				if reach[i][j] && !done[j] && !(reach[j][i] || j == i) {
					ready = false
				}
			}
			if !ready {
				continue
			}
			// the SCC of i
			var scc []int
			for j := 0; j < n; j++ {
				if j == i || (reach[i][j] && reach[j][i]) {
					scc = append(scc, j)
				}
			}
			for _, v := range scc {
				sol[v] = 0
			}
			for changed := true; changed; {
				changed = false
				for _, v := range scc {
					nd := sys[v]
					var val uint
					switch nd.kind {
					case 'U':
						for _, x := range nd.own {
							val |= 1 << uint(x)
						}
						for _, e := range nd.edges {
							val |= sol[e]
						}
					case 'I':
						val = c25full
						for _, e := range nd.edges {
							val &= sol[e]
						}
					case 'C':
						val = ^sol[nd.edges[0]] & c25full
					}
					if val != sol[v] {
						sol[v] = val
						changed = true
					}
				}
			}
			for _, v := range scc {
				if !done[v] {
					done[v] = true
					cnt++
				}
			}
		}
	}
	return sol, true
}

func c25run(sys []c25node, bufSize int) (res []container.IntSet, err error, panicMsg string) {
	panicMsg = vRecover(func() {
		c := NewClosure(bufSize)
		nodes := make([]*FutureSet, len(sys))
		for i, nd := range sys {
			switch nd.kind {
			case 'U':
				nodes[i] = c.Add(append([]int(nil), nd.own...))
			case 'I':
				var deps []*FutureSet
				for _, e := range nd.edges {
					deps = append(deps, nodes[e])
				}
				nodes[i] = c.Intersect(deps...)
			case 'C':
				nodes[i] = c.Complement(nodes[nd.edges[0]], nil)
			}
		}
		for i, nd := range sys {
			if nd.kind == 'U' {
				for _, e := range nd.edges {
					nodes[i].Include(nodes[e])
				}
			}
		}
		err = c.Compute()
		for _, nd := range nodes {
			res = append(res, nd.IntSet)
		}
	})
	return
}

func c25check(ck *vCheck, sys []c25node, bufSize int) {
	want, ok := c25reference(sys)
	got, err, pmsg := c25run(sys, bufSize)
	in := fmt.Sprintf("system=%s buf=%d", c25str(sys), bufSize)
	ck.Case(len(sys) > 1)
	ck.Sample(in)
	if pmsg != "" {
		ck.Failf(in, "Compute panicked: %s", pmsg)
		return
	}
	if !ok {
		if err == nil {
			ck.Failf(in, "a complement depends on itself but no error was reported")
		}
		return
	}
	if err != nil {
		ck.Failf(in, "error reported although no complement is on a cycle: %v", err)
		return
	}
	for i := range sys {
		m, valid := c25mask(got[i])
		if !valid || m != want[i] {
			ck.Failf(in, "node %d = %v, least solution is mask %04b (bit3 = all other integers)", i, got[i], want[i])
			return
		}
	}
}

func c25str(sys []c25node) string {
	s := ""
	for i, nd := range sys {
		s += fmt.Sprintf("n%d=%c%v->%v ", i, nd.kind, nd.own, nd.edges)
	}
	return s
}

func c25subsets(n int, allowEmpty bool) [][]int {
	var out [][]int
	for m := 0; m < 1<<uint(n); m++ {
		if m == 0 && !allowEmpty {
			continue
		}
		var s []int
		for i := 0; i < n; i++ {
			if m&(1<<uint(i)) != 0 {
				s = append(s, i)
			}
		}
		out = append(out, s)
	}
	return out
}

func c25choices(i, n int) []c25node {
	var out []c25node
	for _, own := range [][]int{nil, {0}, {1}, {0, 1}} {
		for _, e := range c25subsets(n, true) {
			out = append(out, c25node{'U', own, e})
		}
	}
	for _, e := range c25subsets(i, false) {
		out = append(out, c25node{'I', nil, e})
		if len(e) >= 2 {
			// operand order matters to the implementation (it folds left to right through one buffer)
			rev := make([]int, len(e))
			for k, v := range e {
				rev[len(e)-1-k] = v
			}
			out = append(out, c25node{'I', nil, rev})
		}
	}
	for e := 0; e < i; e++ {
		out = append(out, c25node{'C', nil, []int{e}})
	}
	return out
}

func TestVerifC25Closure(t *testing.T) {
	ex := vNew("C25/closure-enumerated", "all systems of 2..4 nodes (4 nodes: thinned deterministically in the quick tier) of unions with own set ⊆ {0,1} and arbitrary edges, intersections (operands in both orders) and complements of earlier nodes; reuse buffer sizes 0 and 8", false, "Closure.Compute", "Closure.closure", "Closure.slowClosure")
	for n := 2; n <= 4; n++ {
		var rec func(i int, sys []c25node)
		cnt := 0
		rec = func(i int, sys []c25node) {
			if i == n {
				cnt++
				if n == 4 && vTier() != "thorough" && cnt%29 != 0 {
					return
				}
				c25check(ex, sys, 8)
				if len(sys) == 2 {
					c25check(ex, sys, 0)
				}
				return
			}
			for _, c := range c25choices(i, n) {
				rec(i+1, append(sys[:i:i], c))
			}
		}
		rec(0, nil)
	}
	rnd := vNew("C25/closure-sampled", "seeded random systems of 4..6 nodes, own sets ⊆ {0,1,2}, buffer sizes 0..8", false, "Closure.Compute")
	r := vNewRand(vSeed())
	count := 3000
	if vTier() == "thorough" {
		count = 60000
	}
	for k := 0; k < count; k++ {
		n := 4 + r.Intn(3)
		sys := make([]c25node, n)
		for i := range sys {
			switch x := r.Intn(10); {
			case x < 6 || i == 0:
				var own, edges []int
				for v := 0; v < 3; v++ {
					if r.Intn(3) == 0 {
						own = append(own, v)
					}
				}
				for e := 0; e < n; e++ {
					if r.Intn(4) == 0 {
						edges = append(edges, e)
					}
				}
				sys[i] = c25node{'U', own, edges}
			case x < 8:
				var edges []int
				for e := 0; e < i; e++ {
					if r.Intn(2) == 0 {
						edges = append(edges, e)
					}
				}
				if len(edges) == 0 {
					edges = []int{r.Intn(i)}
				}
				for a := len(edges) - 1; a > 0; a-- {
					b := r.Intn(a + 1)
					edges[a], edges[b] = edges[b], edges[a]
				}
				sys[i] = c25node{'I', nil, edges}
			default:
				sys[i] = c25node{'C', nil, []int{r.Intn(i)}}
			}
		}
		c25check(rnd, sys, r.Intn(9))
	}
	vWrite(t, []string{"closure reference semantics: stratified least fixpoint over universe {0,1,2,REST}; systems with an empty intersection are excluded (not constructible meaningfully)"}, ex, rnd)
}
