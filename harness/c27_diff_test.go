package diff

// Bounded executable contracts for line diffs (C27).

import (
	"fmt"
	"strconv"
	"strings"
	"testing"
)

func c27lcsLen(a, b []int) int {
	dp := make([][]int, len(a)+1)
	for i := range dp {
		dp[i] = make([]int, len(b)+1)
	}
	for i := len(a) - 1; i >= 0; i-- {
		for j := len(b) - 1; j >= 0; j-- {
			if a[i] == b[j] {
				dp[i][j] = dp[i+1][j+1] + 1
			} else if dp[i+1][j] > dp[i][j+1] {
				dp[i][j] = dp[i+1][j]
			} else {
				dp[i][j] = dp[i][j+1]
			}
		}
	}
	return dp[0][0]
}

// c27script checks the contract of lcs: the chunks replay a into b and the number of equal lines is maximal.
func c27script(ck *vCheck, a, b []int) {
	in := fmt.Sprintf("a=%v b=%v", a, b)
	var chunks []chunk
	if p := vRecover(func() { chunks = lcs(append([]int(nil), a...), append([]int(nil), b...)) }); p != "" {
		ck.Failf(in, "lcs panicked: %s", p)
		return
	}
	ai, bi, eq := 0, 0, 0
	for _, c := range chunks {
		if c.del < 0 || c.ins < 0 || c.eq < 0 {
			ck.Failf(in, "negative chunk %v", c)
			return
		}
		ai += c.del
		bi += c.ins
		for k := 0; k < c.eq; k++ {
			if ai+k >= len(a) || bi+k >= len(b) || a[ai+k] != b[bi+k] {
				ck.Failf(in, "chunk %+v claims equal lines at a[%d], b[%d] (chunks %+v)", c, ai+k, bi+k, chunks)
				return
			}
		}
		ai += c.eq
		bi += c.eq
		eq += c.eq
	}
	if ai != len(a) || bi != len(b) {
		ck.Failf(in, "script consumes %d/%d lines of a and %d/%d of b (chunks %+v)", ai, len(a), bi, len(b), chunks)
		return
	}
	if want := c27lcsLen(a, b); eq != want {
		ck.Failf(in, "edit script keeps %d lines, a longest common subsequence has %d: %d edits instead of the minimum %d",
			eq, want, len(a)+len(b)-2*eq, len(a)+len(b)-2*want)
	}
}

// c27apply parses a unified diff and applies it to left strictly.
func c27apply(left []string, diff string) ([]string, error) {
	var out []string
	pos := 0 // next unread line of left (0-based)
	lines := strings.Split(diff, "\n")
	if len(lines) > 0 && lines[len(lines)-1] == "" {
		lines = lines[:len(lines)-1]
	}
	for i := 0; i < len(lines); {
		h := lines[i]
		if !strings.HasPrefix(h, "@@ -") || !strings.HasSuffix(h, " @@") {
			return nil, fmt.Errorf("bad hunk header %q", h)
		}
		parts := strings.Fields(h[3 : len(h)-3])
		if len(parts) != 2 {
			return nil, fmt.Errorf("bad hunk header %q", h)
		}
		parse := func(s string) (int, int, error) {
			f := strings.Split(s[1:], ",")
			if len(f) != 2 {
				return 0, 0, fmt.Errorf("bad range %q", s)
			}
			a, e1 := strconv.Atoi(f[0])
			b, e2 := strconv.Atoi(f[1])
			if e1 != nil || e2 != nil {
				return 0, 0, fmt.Errorf("bad range %q", s)
			}
			return a, b, nil
		}
		ll, ls, err := parse(parts[0])
		if err != nil {
			return nil, err
		}
		rl, rs, err := parse(parts[1])
		if err != nil {
			return nil, err
		}
		start := ll - 1
		if ls == 0 {
			start = ll
		}
		if start < pos || start > len(left) {
			return nil, fmt.Errorf("hunk %q starts at left line %d but %d lines are already consumed", h, ll, pos)
		}
		out = append(out, left[pos:start]...)
		pos = start
		if want := len(out) + 1; rs > 0 && rl != want {
			return nil, fmt.Errorf("hunk %q: new-file start line should be %d", h, want)
		}
		i++
		var nl, nr int
		for i < len(lines) && !strings.HasPrefix(lines[i], "@@ -") {
			ln := lines[i]
			if ln == "" {
				return nil, fmt.Errorf("empty diff line in hunk %q", h)
			}
			switch ln[0] {
			case ' ', '-':
				if pos >= len(left) || left[pos] != ln[1:] {
					return nil, fmt.Errorf("hunk %q: line %q does not match left line %d", h, ln, pos+1)
				}
				pos++
				nl++
				if ln[0] == ' ' {
					out = append(out, ln[1:])
					nr++
				}
			case '+':
				out = append(out, ln[1:])
				nr++
			default:
				return nil, fmt.Errorf("bad diff line %q", ln)
			}
			i++
		}
		if nl != ls || nr != rs {
			return nil, fmt.Errorf("hunk %q has %d old and %d new lines", h, nl, nr)
		}
	}
	out = append(out, left[pos:]...)
	return out, nil
}

func c27text(ck *vCheck, left, right []string) {
	l, r := strings.Join(left, "\n"), strings.Join(right, "\n")
	in := fmt.Sprintf("left=%q right=%q", l, r)
	var d string
	if p := vRecover(func() { d = LineDiff(l, r) }); p != "" {
		ck.Failf(in, "LineDiff panicked: %s", p)
		return
	}
	if (d == "") != (l == r) {
		ck.Failf(in, "LineDiff is empty=%v but texts equal=%v", d == "", l == r)
		return
	}
	if d == "" {
		return
	}
	got, err := c27apply(left, d)
	if err != nil {
		ck.Failf(in, "rendered diff does not apply to the left text: %v\n%s", err, d)
		return
	}
	if strings.Join(got, "\n") != r {
		ck.Failf(in, "applying the rendered diff gives %q\n%s", strings.Join(got, "\n"), d)
	}
}

func c27seqs(maxLen, syms int) [][]int {
	out := [][]int{{}}
	prev := [][]int{{}}
	for l := 1; l <= maxLen; l++ {
		var cur [][]int
		for _, p := range prev {
			for s := 0; s < syms; s++ {
				cur = append(cur, append(append([]int(nil), p...), s))
			}
		}
		out = append(out, cur...)
		prev = cur
	}
	return out
}

func TestVerifC27(t *testing.T) {
	maxLen := 5
	if vTier() == "thorough" {
		maxLen = 6
	}
	ex := vNew("C27/edit-script-exhaustive", fmt.Sprintf("all pairs of sequences of length <= %d over 3 symbols", maxLen), true, "lcs", "trace", "middle", "chunk.merge")
	seqs := c27seqs(maxLen, 3)
	for _, a := range seqs {
		for _, b := range seqs {
			ex.Case(len(a) > 0 && len(b) > 0)
			c27script(ex, a, b)
		}
	}
	ex.Sample("a=[0 1 2 0 1] b=[1 0 2 2 1]")
	rnd := vNew("C27/edit-script-sampled", "seeded random pairs, lengths 0..40, alphabets of 2..6 symbols, including mutated copies", false, "lcs", "trace", "middle")
	r := vNewRand(vSeed())
	count := 20000
	if vTier() == "thorough" {
		count = 400000
	}
	gen := func(n, k int) []int {
		s := make([]int, n)
		for i := range s {
			s[i] = r.Intn(k)
		}
		return s
	}
	for i := 0; i < count; i++ {
		k := 2 + r.Intn(5)
		a := gen(r.Intn(41), k)
		var b []int
		if r.Intn(2) == 0 {
			b = gen(r.Intn(41), k)
		} else {
			for _, v := range a {
				switch r.Intn(6) {
				case 0:
				case 1:
					b = append(b, v, r.Intn(k))
				default:
					b = append(b, v)
				}
			}
		}
		rnd.Case(true)
		if i < 3 {
			rnd.Sample(fmt.Sprintf("a=%v b=%v", a, b))
		}
		c27script(rnd, a, b)
	}
	// rendering: texts whose runs stay at or below 14 lines (no elision)
	rd := vNew("C27/linediff-render", "all pairs of texts of <= 4 lines over 2 words (exhaustive part) and seeded texts of <= 40 lines with runs of at most 14 changed lines, and one block of exactly 1..14 inserted, deleted or replaced lines with 0..4 context lines", false, "LineDiff", "hunk.add", "hunk.writeTo")
	words := []string{"a", "b"}
	small := c27seqs(4, 2)
	toText := func(s []int) []string {
		out := make([]string, 0, len(s))
		for _, v := range s {
			out = append(out, words[v])
		}
		if len(out) == 0 {
			out = []string{""}
		}
		return out
	}
	for _, a := range small {
		for _, b := range small {
			rd.Case(true)
			c27text(rd, toText(a), toText(b))
		}
	}
	// the boundary of the elision rule: one changed block of exactly 1..14 lines (inserted, deleted or
	// replaced) with 0..4 lines of context on either side must still be rendered in full
	// (seeded change C27-r13m2 abbreviated blocks of exactly 14 lines)
	for run := 1; run <= 14; run++ {
		for ctx := 0; ctx <= 4; ctx++ {
			for kind := 0; kind < 3; kind++ {
				var left, right []string
				for j := 0; j < ctx; j++ {
					left = append(left, fmt.Sprintf("head%d", j))
					right = append(right, fmt.Sprintf("head%d", j))
				}
				for j := 0; j < run; j++ {
					if kind != 0 {
						left = append(left, fmt.Sprintf("old%d", j))
					}
					if kind != 1 {
						right = append(right, fmt.Sprintf("new%d", j))
					}
				}
				for j := 0; j < ctx; j++ {
					left = append(left, fmt.Sprintf("tail%d", j))
					right = append(right, fmt.Sprintf("tail%d", j))
				}
				if len(left) == 0 {
					left = []string{""}
				}
				if len(right) == 0 {
					right = []string{""}
				}
				rd.Case(true)
				c27text(rd, left, right)
			}
		}
	}
	lr := vNew("C27/linediff-long-runs", "seeded texts with a run of more than 14 inserted, deleted or unchanged-context lines (elision path of hunk.add)", false, "LineDiff", "hunk.add")
	count = 3000
	if vTier() == "thorough" {
		count = 60000
	}
	for i := 0; i < count; i++ {
		n := 1 + r.Intn(40)
		left := make([]string, n)
		for j := range left {
			left[j] = fmt.Sprintf("line%d", r.Intn(12))
		}
		var right []string
		edits := 1 + r.Intn(4)
		at := map[int]int{}
		for e := 0; e < edits; e++ {
			at[r.Intn(n)] = 1 + r.Intn(3)
		}
		for j, ln := range left {
			switch at[j] {
			case 1:
			case 2:
				right = append(right, ln, fmt.Sprintf("new%d", r.Intn(5)))
			case 3:
				right = append(right, fmt.Sprintf("chg%d", r.Intn(5)))
			default:
				right = append(right, ln)
			}
		}
		if len(right) == 0 {
			right = []string{""}
		}
		rd.Case(true)
		if i < 3 {
			rd.Sample(fmt.Sprintf("left=%q right=%q", strings.Join(left, "\n"), strings.Join(right, "\n")))
		}
		c27text(rd, left, right)
	}
	for i := 0; i < 200; i++ {
		n := 15 + r.Intn(10)
		var left, right []string
		for j := 0; j < 3; j++ {
			left = append(left, fmt.Sprintf("ctx%d", j))
			right = append(right, fmt.Sprintf("ctx%d", j))
		}
		for j := 0; j < n; j++ {
			if i%2 == 0 {
				right = append(right, fmt.Sprintf("ins%d", j))
			} else {
				left = append(left, fmt.Sprintf("del%d", j))
			}
		}
		left = append(left, "tail")
		right = append(right, "tail")
		lr.Case(true)
		if i < 2 {
			lr.Sample(fmt.Sprintf("%d-line run", n))
		}
		c27text(lr, left, right)
	}
	vWrite(t, []string{"the unified-diff applier used as oracle is strict: header line numbers, sizes and every context/deleted line must match the left text"}, ex, rnd, rd, lr)
}
