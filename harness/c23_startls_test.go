package main

// C23 (bounded), protocol connection included: the real startLS is run over a pair of pipes in
// place of the standard streams and receives bursts of notifications without waiting for answers,
// the first one slow to process (a large grammar). Diagnostics must arrive once per version in
// request order, and go-to-definition must answer from the latest content.

import (
	"context"
	"encoding/json"
	"fmt"
	"io"
	"os"
	"strings"
	"testing"
	"time"

	"go.lsp.dev/jsonrpc2"
	lsp "go.lsp.dev/protocol"
)

type s23Pipe struct {
	io.Reader
	io.WriteCloser
}

func s23Big(n int) string {
	var b strings.Builder
	b.WriteString("language big(go);\n:: lexer\n")
	for i := 0; i < n; i++ {
		fmt.Fprintf(&b, "tok%d: /t%d[a-z]+x%d/\n", i, i, i)
	}
	b.WriteString(":: parser\ninput: nt0;\n")
	for i := 0; i < n; i++ {
		fmt.Fprintf(&b, "nt%d: tok%d nt%d | tok%d tok%d;\n", i, i, (i+1)%n, i, (i+7)%n)
	}
	return b.String()
}

func TestVerifC23StartLS(t *testing.T) {
	ck := vNew("C23/startLS-ordering", "the real startLS over pipes: bursts of 3..6 didOpen/didChange notifications on 1..2 documents sent back to back, the first content large (slow to check), later ones small with and without errors; then a definition request", false,
		"startLS", "lsp.Handlers (AsyncHandler chain)", "Server.DidOpen", "Server.DidChange", "Server.Definition")
	inR, inW, err := os.Pipe()
	if err != nil {
		t.Fatal(err)
	}
	outR, outW, err := os.Pipe()
	if err != nil {
		t.Fatal(err)
	}
	oldIn, oldOut := os.Stdin, os.Stdout
	os.Stdin, os.Stdout = inR, outW
	defer func() { os.Stdin, os.Stdout = oldIn, oldOut }()

	ctx, cancel := context.WithCancel(context.Background())
	defer cancel()
	done := make(chan error, 1)
	go func() { done <- startLS(ctx, nil) }()

	published := make(chan lsp.PublishDiagnosticsParams, 64)
	client := jsonrpc2.NewConn(jsonrpc2.NewStream(s23Pipe{outR, inW}))
	client.Go(ctx, func(ctx context.Context, reply jsonrpc2.Replier, req jsonrpc2.Request) error {
		if req.Method() == lsp.MethodTextDocumentPublishDiagnostics {
			var p lsp.PublishDiagnosticsParams
			if err := json.Unmarshal(req.Params(), &p); err == nil {
				published <- p
			}
		}
		return reply(ctx, nil, nil)
	})
	rctx, rcancel := context.WithTimeout(ctx, 4*time.Minute)
	defer rcancel()
	var initRes lsp.InitializeResult
	if _, err := client.Call(rctx, lsp.MethodInitialize, &lsp.InitializeParams{
		WorkspaceFolders: []lsp.WorkspaceFolder{{URI: "file:///demo", Name: "demo"}},
	}, &initRes); err != nil {
		ck.Case(true)
		ck.Failf(nil, "initialize failed: %v", err)
		vWrite(t, nil, ck)
		return
	}
	const small = "language a(go);\n:: lexer\nid: /a/\n:: parser\ninput: id;\n"
	const smallBad = "language a(go);\n:: lexer\nid: /a/\n:: parser\ninput: idd;\n"
	big := s23Big(2500)
	r := vNewRand(vSeed() + 2323)
	rounds := 4
	if vTier() == "thorough" {
		rounds = 30
	}
	version := map[lsp.DocumentURI]int32{}
	opened := map[lsp.DocumentURI]bool{}
	for round := 0; round < rounds; round++ {
		ck.Case(true)
		type sent struct {
			uri     lsp.DocumentURI
			version int32
			errs    bool
		}
		var burst []sent
		n := 3 + r.Intn(4)
		var latest = map[lsp.DocumentURI]string{}
		for k := 0; k < n; k++ {
			u := lsp.DocumentURI(fmt.Sprintf("file:///demo/d%d.tm", r.Intn(2)))
			text := small
			switch {
			case k == 0:
				text = big
			case r.Intn(2) == 0:
				text = smallBad
			}
			version[u]++
			var nerr error
			if !opened[u] {
				opened[u] = true
				nerr = client.Notify(rctx, lsp.MethodTextDocumentDidOpen, &lsp.DidOpenTextDocumentParams{
					TextDocument: lsp.TextDocumentItem{URI: u, LanguageID: "textmapper", Version: version[u], Text: text}})
			} else {
				nerr = client.Notify(rctx, lsp.MethodTextDocumentDidChange, &lsp.DidChangeTextDocumentParams{
					TextDocument:   lsp.VersionedTextDocumentIdentifier{TextDocumentIdentifier: lsp.TextDocumentIdentifier{URI: u}, Version: version[u]},
					ContentChanges: []lsp.TextDocumentContentChangeEvent{{Text: text}}})
			}
			if nerr != nil {
				ck.Failf(nil, "notification failed: %v", nerr)
			}
			burst = append(burst, sent{u, version[u], text == smallBad})
			latest[u] = text
		}
		desc := fmt.Sprint(burst)
		for k := 0; k < len(burst); k++ {
			select {
			case p := <-published:
				w := burst[k]
				if p.URI != w.uri || p.Version != uint32(w.version) || (len(p.Diagnostics) > 0) != w.errs {
					ck.Failf(desc, "publication %d of the burst is (%s, version %d, %d diagnostics); request order gives (%s, version %d, errors=%v)", k, p.URI, p.Version, len(p.Diagnostics), w.uri, w.version, w.errs)
					k = len(burst)
				}
			case <-rctx.Done():
				ck.Failf(desc, "timed out waiting for publication %d of the burst", k)
				k = len(burst)
			}
		}
		// definition answers from the latest content of a document whose latest content is `small`
		for u, text := range latest {
			if text != small {
				continue
			}
			var locs []lsp.Location
			if _, err := client.Call(rctx, lsp.MethodTextDocumentDefinition, &lsp.DefinitionParams{
				TextDocumentPositionParams: lsp.TextDocumentPositionParams{TextDocument: lsp.TextDocumentIdentifier{URI: u}, Position: lsp.Position{Line: 4, Character: 8}},
			}, &locs); err != nil {
				ck.Failf(desc, "definition failed: %v", err)
			} else if len(locs) != 1 || locs[0].Range.Start != (lsp.Position{Line: 2, Character: 0}) {
				ck.Failf(desc, "definition in %s returned %+v, the latest content declares id at 2:0", u, locs)
			}
		}
		if round == 0 {
			ck.Sample(desc)
		}
		// drain stray publications (there must be none)
		select {
		case p := <-published:
			ck.Failf(desc, "an extra publication arrived: %s version %d", p.URI, p.Version)
		case <-time.After(50 * time.Millisecond):
		}
	}
	inW.Close()
	select {
	case <-done:
	case <-time.After(30 * time.Second):
		ck.Failf(nil, "the server did not stop after its input was closed")
	}
	outR.Close()
	os.Stdin, os.Stdout = oldIn, oldOut
	vWrite(t, []string{"scheduling is whatever the Go runtime does in these runs; the check relies on the first message of each burst being slow enough for later ones to overtake it if nothing orders them"}, ck)
}
